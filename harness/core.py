"""Harness functions of the program-level families (C01-C05, C08).  Each factory returns a
function of int/bool parameters; `props` selects which monitors are asserted."""
from vlib.spec import Cond, I, B
from harness import fam
from harness.fam import conc, concb, arity
from harness.prog import (check_program, TaskD, SEQ, Y, TASK, ITEM, SHARED, KEEP, REUSE, CONST,
                          SYNC, TRY, RAISE, RET, NONE, ORPHAN, LAZY, task_fn)

ENC_SCHED = [
    "asynq/scheduler.py: TaskScheduler.wait_for, _execute, _schedule_batch, _flush_batch, "
    "_handle_async_task, _continue_with_task, _continue_with_batch, _select_batch_to_flush",
    "asynq/async_task.py: AsyncTask._continue, _continue_on_generator, _accept_yield_result, "
    "_accept_error, _queue_exit, _queue_throw_error, is_blocked, _computed, unwrap, extract_futures",
    "asynq/decorators.py: AsyncDecorator.__call__, asynq, PureAsyncDecorator._call_pure, async_call",
    "asynq/utils.py: result",
    "asynq/batching.py: BatchBase.flush, _compute, _computed; BatchItemBase.__init__, _compute",
    "asynq/futures.py: FutureBase.value, error, set_value, set_error, _computed; Future._compute",
]


# ---------------------------------------------------------------------------------------
# F-TREE

def mk_tree(props, w, D, K, single_kind=False, prio_mode="tuple"):
    def f(ho, *a):
        ds = [conc(a[i], D + 1) for i in range(w)]
        if single_kind:
            ks = [0] * w
            rest = a[w:]
        else:
            ks = [conc(a[w + i], K) for i in range(w)]
            rest = a[2 * w:]
        ps = list(rest[:K])
        vs = list(rest[K:K + w])
        conv = conc(rest[K + w], 4)
        tup = concb(rest[K + w + 1])
        td = fam.tree(ds, ks, vs, tuple_root=tup)
        exp = "depth" if (single_kind or K == 1) else None
        return check_program(td, props, nkinds=K, prio=ps, prio_mode=prio_mode, hash_order=conc(ho, 2),
                             conv=conv, expect_flushes=exp, sig=("tree", tuple(ds), tuple(ks), conv))
    return f


def tree_params(w, D, K, single_kind=False):
    ps = [I("ho", 0, 1)] + [I("d%d" % i, 0, D) for i in range(w)]
    if not single_kind:
        ps += [I("k%d" % i, 0, K - 1) for i in range(w)]
    ps += [I("p%d" % i) for i in range(K)] + [I("v%d" % i) for i in range(w)]
    ps += [I("conv", 0, 3), B("tup")]
    return ps


# ---------------------------------------------------------------------------------------
# F-STEPS: kind A's flush enables requests of kind B

def mk_steps(props, na, nb, K=2, nc=0):
    def f(ho, *a):
        ka = [conc(a[i], K) for i in range(na)]
        kb = [conc(a[na + i], K) for i in range(nb)]
        kc = [conc(a[na + nb + i], K) for i in range(nc)]
        rest = a[na + nb + nc:]
        ps = list(rest[:K])
        v = rest[K]
        kids = [TASK(fam.chain_kinds("A", ka, v)), TASK(fam.chain_kinds("B", kb, v + 10))]
        if nc:
            kids.append(TASK(fam.chain_kinds("C", kc, v + 20)))
        td = TaskD("root", Y(fam.LIST_T[len(kids)], *kids))
        single = len(set(ka + kb + kc)) <= 1
        return check_program(td, props, nkinds=K, prio=ps, hash_order=conc(ho, 2),
                             expect_flushes="depth" if single else None,
                             sig=("steps", tuple(ka), tuple(kb), tuple(kc)))
    return f


def steps_params(na, nb, K=2, nc=0):
    return ([I("ho", 0, 1)] + [I("ka%d" % i, 0, K - 1) for i in range(na)]
            + [I("kb%d" % i, 0, K - 1) for i in range(nb)] + [I("kc%d" % i, 0, K - 1) for i in range(nc)]
            + [I("p%d" % i) for i in range(K)] + [I("v")])


# ---------------------------------------------------------------------------------------
# F-SHAPE: one task yields each template with each slot kind

def mk_shape(props, nmenu, nslots=3, gmodes=1):
    def f(t, g, *a):
        sels = [conc(a[i], nmenu) for i in range(nslots)]
        vals = list(a[nslots:2 * nslots])
        p0, p1, ho, res = a[2 * nslots:2 * nslots + 4]
        gm = conc(g, gmodes)
        sels = sels[:arity(t)] + [0] * (nslots - arity(t))
        td = fam.shape_root(t, sels, vals + [vals[0]] * 4, gmode=gm, ret="result" if conc(res, 2) else "return")
        return check_program(td, props, nkinds=2, prio=[p0, p1], hash_order=conc(ho, 2),
                             sig=("shape", t, tuple(sels), gm))
    return f


def shape_params(templates, nmenu, nslots=3, gmodes=1, slim=False):
    return ([I("t", 0, len(templates) - 1), I("g", 0, gmodes - 1)]
            + [I("s%d" % i, 0, nmenu - 1) for i in range(nslots)]
            + [I("v%d" % i) for i in range(nslots)] + [I("p0"), I("p1"), I("ho", 0, 0 if slim else 1),
                                                       I("res", 0, 0 if slim else 1)])


def shape_cond(name, props, templates, nmenu, nslots, gmodes=1, budget=120, builds=("C",), note="",
               slim=False, pin=2):
    """One Cond per template list; `t` indexes `templates`; unused selectors pinned to 0."""
    inner = mk_shape(props, nmenu, nslots, gmodes)

    def f(t, g, *a):
        tt = templates[conc(t, len(templates))]
        for i in range(arity(tt), nslots):
            if a[i] != 0:
                return True          # excluded by the precondition below (kept total for safety)
        return inner(tt, g, *a)
    pre = []
    return Cond(name, f, shape_params(templates, nmenu, nslots, gmodes, slim), pin=pin, builds=builds,
                budget=budget, family="F-SHAPE", encodes=ENC_SCHED, note=note,
                extra_pre=["_hm.core.unused_ok(%r, t, [%s])" % (
                    templates, ", ".join("s%d" % i for i in range(nslots)))])


def unused_ok(templates, t, sels):
    tt = templates[t]
    for i in range(arity(tt), len(sels)):
        if sels[i] != 0:
            return False
    return True


# ---------------------------------------------------------------------------------------
# F-DAG: diamond with a shared task, computed futures yielded again, same future twice

def mk_dag(props, D=2, K=2):
    def f(ho, variant, ds, ks, ka, kb, first, p0, p1, v):
        dsv = conc(ds, D + 1)
        ksv, kav, kbv = conc(ks, K), conc(ka, K), conc(kb, K)
        var = conc(variant, 4)
        S = fam.chain("S", dsv, ksv, v)
        if var == 0:
            # A and B both await S next to an own item
            A = TaskD("A", Y(2, SHARED("s", S), ITEM(kav, v + 1)))
            Bt = TaskD("B", Y(4, ITEM(kbv, v + 2), SHARED("s", S)))
        elif var == 1:
            # B first waits for an own item, then yields S (by then possibly computed)
            A = TaskD("A", Y(0, SHARED("s", S)))
            Bt = TaskD("B", SEQ(Y(0, ITEM(kbv, v + 2)), Y(0, SHARED("s", S))))
        elif var == 2:
            # same future twice in one yield + computed future yielded again
            A = TaskD("A", SEQ(Y(2, KEEP("x", ITEM(kav, v + 1)), REUSE("x")), Y(4, REUSE("x"), SHARED("s", S))))
            Bt = TaskD("B", Y(2, SHARED("s", S), SHARED("s", S)))
        else:
            # shared task awaited at different depths + an orphan that must never start
            A = TaskD("A", SEQ(ORPHAN(fam.chain("orph", 1, kav, v)), Y(0, SHARED("s", S))))
            Bt = TaskD("B", Y(0, TASK(TaskD("B2", Y(2, SHARED("s", S), ITEM(kbv, v + 3))))))
        kids = [TASK(A), TASK(Bt)] if conc(first, 2) == 0 else [TASK(Bt), TASK(A)]
        td = TaskD("root", Y(4, *kids))
        return check_program(td, props, nkinds=K, prio=[p0, p1], hash_order=conc(ho, 2),
                             sig=("dag", var, dsv, ksv, kav, kbv))
    return f


DAG_PARAMS = [I("ho", 0, 1), I("variant", 0, 3), I("ds", 0, 2), I("ks", 0, 1), I("ka", 0, 1), I("kb", 0, 1),
              I("first", 0, 1), I("p0"), I("p1"), I("v")]


# ---------------------------------------------------------------------------------------
# F-FAULT: root -> mid -> faulty slots; guard modes at both levels; sibling chain

def mk_fault(props, templates, nmenu=fam.FAULT_MENU, g0modes=5, g1modes=5):
    def f(t, g0, g1, s0, s1, s2, ksib, p0, p1, ho, v, res):
        tt = templates[conc(t, len(templates))]
        sels = [conc(s0, nmenu), conc(s1, nmenu), conc(s2, nmenu)]
        for i in range(arity(tt), 3):
            if sels[i] != 0:
                return True
        gm0, gm1 = conc(g0, g0modes), conc(g1, g1modes)
        slots = [fam.menu_slot(sels[i], i, v + i) for i in range(arity(tt))]
        mid = TaskD("mid", SEQ(Y(0, KEEP("pre", ITEM(0, v + 7))), fam.guard(Y(tt, *slots), gm1),
                               Y(0, ITEM(1, v + 5))), ret="result" if conc(res, 2) else "return")
        sib = fam.chain("sib", 2, conc(ksib, 2), v + 20)
        td = TaskD("root", SEQ(fam.guard(Y(4, TASK(mid), TASK(sib)), gm0), Y(0, ITEM(0, v + 9))))
        return check_program(td, props, nkinds=2, prio=[p0, p1], hash_order=conc(ho, 2),
                             sig=("fault", tt, tuple(sels), gm0, gm1))
    return f


FAULT_PARAMS = lambda nt, nmenu, g0, g1, slim=False: [  # noqa: E731
    I("t", 0, nt - 1), I("g0", 0, g0 - 1), I("g1", 0, g1 - 1), I("s0", 0, nmenu - 1), I("s1", 0, nmenu - 1),
    I("s2", 0, nmenu - 1), I("ksib", 1 if slim else 0, 1), I("p0"), I("p1"), I("ho", 0, 1), I("v"),
    I("res", 0, 0 if slim else 1)]


def fault_cond(name, props, templates, g0modes=5, g1modes=5, pin=4, budget=180, nmenu=fam.FAULT_MENU,
               builds=("C",), slim=False):
    return Cond(name, mk_fault(props, templates, nmenu, g0modes, g1modes),
                FAULT_PARAMS(len(templates), nmenu, g0modes, g1modes, slim), pin=pin, builds=builds,
                budget=budget, family="F-FAULT", encodes=ENC_SCHED,
                extra_pre=["_hm.core.unused_ok(%r, t, [s0, s1, s2])" % (templates,)])


# ---------------------------------------------------------------------------------------
# F-REENTRY: synchronous calls from inside tasks / flush bodies while siblings are pending

def _hook_sync(kind_trigger, kind_inner, v):
    state = {"done": False}

    def hook(rt, batch):
        if batch.kind == kind_trigger and not state["done"]:
            state["done"] = True
            rt.ev("hook")
            task_fn(rt, fam.chain("H", 1, kind_inner, v + 50), "H")
    return hook


def mk_reentry(props, K=2):
    def f(pos, spelling, ka, kc, kb, dc, db, fh, p0, p1, ho, v):
        posv, sp = conc(pos, 3), conc(spelling, 3)
        kav, kcv, kbv = conc(ka, K), conc(kc, K), conc(kb, K)
        dcv, dbv = conc(dc, 3), conc(db, 3)
        if sp == 2:
            inner = ITEM(kcv, v + 30)
        else:
            inner = TASK(fam.chain("C", dcv, kcv, v + 30))
        steps = [Y(0, ITEM(kav, v)), Y(0, ITEM(kav, v + 1))]
        steps.insert(posv, SYNC(sp, inner))
        A = TaskD("A", SEQ(*steps))
        Bt = fam.chain("B", dbv, kbv, v + 10)
        td = TaskD("root", Y(4, TASK(A), TASK(Bt)))
        hook = _hook_sync(kbv, 1 - kbv, v) if concb(fh) else None
        return check_program(td, props, nkinds=K, prio=[p0, p1], hash_order=conc(ho, 2), flush_hook=hook,
                             sig=("reentry", posv, sp, kav, kcv, kbv, dcv, dbv, concb(fh)))
    return f


REENTRY_PARAMS = [I("pos", 0, 2), I("spelling", 0, 2), I("ka", 0, 1), I("kc", 0, 1), I("kb", 0, 1),
                  I("dc", 0, 2), I("db", 0, 2), B("fh"), I("p0"), I("p1"), I("ho", 0, 1), I("v")]
