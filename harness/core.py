"""Harness functions of the program-level families (C01-C05, C08).  Each factory returns a
function of int/bool parameters; `props` selects which monitors are asserted."""
from vlib.spec import Cond, I, B
from harness import fam
from harness.fam import conc, concb, arity
from harness.prog import (check_program, TaskD, SEQ, Y, TASK, ITEM, SHARED, KEEP, REUSE, CONST,
                          SYNC, TRY, RAISE, RET, NONE, ORPHAN, LAZY, task_fn)

ENC_SCHED = [
    "asynq/scheduler.py: TaskScheduler.wait_for, _execute, _schedule_batch, _flush_batch, "
    "_handle_async_task, _continue_with_task, _continue_with_batch, _select_batch_to_flush",
    "asynq/async_task.py: AsyncTask._continue, _continue_on_generator, _accept_yield_result, "
    "_accept_error, _queue_exit, _queue_throw_error, is_blocked, _computed, unwrap, extract_futures",
    "asynq/decorators.py: AsyncDecorator.__call__, asynq, PureAsyncDecorator._call_pure, async_call",
    "asynq/utils.py: result",
    "asynq/batching.py: BatchBase.flush, _compute, _computed; BatchItemBase.__init__, _compute",
    "asynq/futures.py: FutureBase.value, error, set_value, set_error, _computed; Future._compute",
]


# ---------------------------------------------------------------------------------------
# F-TREE

def mk_tree(props, w, D, K, single_kind=False, prio_mode="tuple"):
    def f(ho, *a):
        ds = [conc(a[i], D + 1) for i in range(w)]
        if single_kind:
            ks = [0] * w
            rest = a[w:]
        else:
            ks = [conc(a[w + i], K) for i in range(w)]
            rest = a[2 * w:]
        ps = list(rest[:K])
        vs = list(rest[K:K + w])
        conv = conc(rest[K + w], 6)
        tup = concb(rest[K + w + 1])
        td = fam.tree(ds, ks, vs, tuple_root=tup)
        exp = "depth" if (single_kind or K == 1) else None
        return check_program(td, props, nkinds=K, prio=ps, prio_mode=prio_mode, hash_order=conc(ho, 2),
                             conv=conv, expect_flushes=exp, sig=("tree", tuple(ds), tuple(ks), conv))
    return f


def tree_params(w, D, K, single_kind=False):
    ps = [I("ho", 0, 1)] + [I("d%d" % i, 0, D) for i in range(w)]
    if not single_kind:
        ps += [I("k%d" % i, 0, K - 1) for i in range(w)]
    ps += [I("p%d" % i) for i in range(K)] + [I("v%d" % i) for i in range(w)]
    ps += [I("conv", 0, 5), B("tup")]
    return ps


# ---------------------------------------------------------------------------------------
# F-STEPS: kind A's flush enables requests of kind B

def mk_steps(props, na, nb, K=2, nc=0):
    def f(ho, *a):
        ka = [conc(a[i], K) for i in range(na)]
        kb = [conc(a[na + i], K) for i in range(nb)]
        kc = [conc(a[na + nb + i], K) for i in range(nc)]
        rest = a[na + nb + nc:]
        ps = list(rest[:K])
        v = rest[K]
        kids = [TASK(fam.chain_kinds("A", ka, v)), TASK(fam.chain_kinds("B", kb, v + 10))]
        if nc:
            kids.append(TASK(fam.chain_kinds("C", kc, v + 20)))
        td = TaskD("root", Y(fam.LIST_T[len(kids)], *kids))
        single = len(set(ka + kb + kc)) <= 1
        return check_program(td, props, nkinds=K, prio=ps, hash_order=conc(ho, 2),
                             expect_flushes="depth" if single else None,
                             sig=("steps", tuple(ka), tuple(kb), tuple(kc)))
    return f


def steps_params(na, nb, K=2, nc=0):
    return ([I("ho", 0, 1)] + [I("ka%d" % i, 0, K - 1) for i in range(na)]
            + [I("kb%d" % i, 0, K - 1) for i in range(nb)] + [I("kc%d" % i, 0, K - 1) for i in range(nc)]
            + [I("p%d" % i) for i in range(K)] + [I("v")])


# ---------------------------------------------------------------------------------------
# F-SHAPE: one task yields each template with each slot kind

def mk_shape(props, nmenu, nslots=3, gmodes=1):
    def f(t, g, *a):
        sels = [conc(a[i], nmenu) for i in range(nslots)]
        vals = list(a[nslots:2 * nslots])
        p0, p1, ho, res = a[2 * nslots:2 * nslots + 4]
        gm = conc(g, gmodes)
        sels = sels[:arity(t)] + [0] * (nslots - arity(t))
        td = fam.shape_root(t, sels, vals + [vals[0]] * 4, gmode=gm, ret="result" if conc(res, 2) else "return")
        return check_program(td, props, nkinds=2, prio=[p0, p1], hash_order=conc(ho, 2),
                             sig=("shape", t, tuple(sels), gm))
    return f


def shape_params(templates, nmenu, nslots=3, gmodes=1, slim=False):
    return ([I("t", 0, len(templates) - 1), I("g", 0, gmodes - 1)]
            + [I("s%d" % i, 0, nmenu - 1) for i in range(nslots)]
            + [I("v%d" % i) for i in range(nslots)] + [I("p0"), I("p1"), I("ho", 0, 0 if slim else 1),
                                                       I("res", 0, 0 if slim else 1)])


def shape_cond(name, props, templates, nmenu, nslots, gmodes=1, budget=120, builds=("C",), note="",
               slim=False, pin=2):
    """One Cond per template list; `t` indexes `templates`; unused selectors pinned to 0."""
    inner = mk_shape(props, nmenu, nslots, gmodes)

    def f(t, g, *a):
        tt = templates[conc(t, len(templates))]
        for i in range(arity(tt), nslots):
            if a[i] != 0:
                return True          # excluded by the precondition below (kept total for safety)
        return inner(tt, g, *a)
    pre = []
    return Cond(name, f, shape_params(templates, nmenu, nslots, gmodes, slim), pin=pin, builds=builds,
                budget=budget, family="F-SHAPE", encodes=ENC_SCHED, note=note,
                extra_pre=["_hm.core.unused_ok(%r, t, [%s])" % (
                    templates, ", ".join("s%d" % i for i in range(nslots)))])


def unused_ok(templates, t, sels):
    tt = templates[t]
    for i in range(arity(tt), len(sels)):
        if sels[i] != 0:
            return False
    return True


# ---------------------------------------------------------------------------------------
# F-DAG: diamond with a shared task, computed futures yielded again, same future twice

def mk_dag(props, D=2, K=2):
    def f(ho, variant, ds, ks, ka, kb, first, p0, p1, v):
        dsv = conc(ds, D + 1)
        ksv, kav, kbv = conc(ks, K), conc(ka, K), conc(kb, K)
        var = conc(variant, 4)
        S = fam.chain("S", dsv, ksv, v)
        if var == 0:
            # A and B both await S next to an own item
            A = TaskD("A", Y(2, SHARED("s", S), ITEM(kav, v + 1)))
            Bt = TaskD("B", Y(4, ITEM(kbv, v + 2), SHARED("s", S)))
        elif var == 1:
            # B first waits for an own item, then yields S (by then possibly computed)
            A = TaskD("A", Y(0, SHARED("s", S)))
            Bt = TaskD("B", SEQ(Y(0, ITEM(kbv, v + 2)), Y(0, SHARED("s", S))))
        elif var == 2:
            # same future twice in one yield + computed future yielded again
            A = TaskD("A", SEQ(Y(2, KEEP("x", ITEM(kav, v + 1)), REUSE("x")), Y(4, REUSE("x"), SHARED("s", S))))
            Bt = TaskD("B", Y(2, SHARED("s", S), SHARED("s", S)))
        else:
            # shared task awaited at different depths + an orphan that must never start
            A = TaskD("A", SEQ(ORPHAN(fam.chain("orph", 1, kav, v)), Y(0, SHARED("s", S))))
            Bt = TaskD("B", Y(0, TASK(TaskD("B2", Y(2, SHARED("s", S), ITEM(kbv, v + 3))))))
        kids = [TASK(A), TASK(Bt)] if conc(first, 2) == 0 else [TASK(Bt), TASK(A)]
        td = TaskD("root", Y(4, *kids))
        return check_program(td, props, nkinds=K, prio=[p0, p1], hash_order=conc(ho, 2),
                             sig=("dag", var, dsv, ksv, kav, kbv))
    return f


DAG_PARAMS = [I("ho", 0, 1), I("variant", 0, 3), I("ds", 0, 2), I("ks", 0, 1), I("ka", 0, 1), I("kb", 0, 1),
              I("first", 0, 1), I("p0"), I("p1"), I("v")]


# ---------------------------------------------------------------------------------------
# F-FAULT: root -> mid -> faulty slots; guard modes at both levels; sibling chain

def mk_fault(props, templates, nmenu=fam.FAULT_MENU, g0modes=5, g1modes=5):
    def f(t, g0, g1, s0, s1, s2, ksib, p0, p1, ho, v, res):
        tt = templates[conc(t, len(templates))]
        sels = [conc(s0, nmenu), conc(s1, nmenu), conc(s2, nmenu)]
        for i in range(arity(tt), 3):
            if sels[i] != 0:
                return True
        gm0, gm1 = conc(g0, g0modes), conc(g1, g1modes)
        slots = [fam.menu_slot(sels[i], i, v + i) for i in range(arity(tt))]
        # after the guarded yield: a yield that carries no futures at all (None / empty list - what a list
        # comprehension over an empty collection yields), then one that blocks again
        mid = TaskD("mid", SEQ(Y(0, KEEP("pre", ITEM(0, v + 7))), fam.guard(Y(tt, *slots), gm1),
                               Y(11), Y(8), Y(0, ITEM(1, v + 5))), ret="result" if conc(res, 2) else "return")
        sib = fam.chain("sib", 2, conc(ksib, 2), v + 20)
        td = TaskD("root", SEQ(fam.guard(Y(4, TASK(mid), TASK(sib)), gm0), Y(0, ITEM(0, v + 9))))
        return check_program(td, props, nkinds=2, prio=[p0, p1], hash_order=conc(ho, 2),
                             sig=("fault", tt, tuple(sels), gm0, gm1))
    return f


FAULT_PARAMS = lambda nt, nmenu, g0, g1, slim=False: [  # noqa: E731
    I("t", 0, nt - 1), I("g0", 0, g0 - 1), I("g1", 0, g1 - 1), I("s0", 0, nmenu - 1), I("s1", 0, nmenu - 1),
    I("s2", 0, nmenu - 1), I("ksib", 1 if slim else 0, 1), I("p0"), I("p1"), I("ho", 0, 1), I("v"),
    I("res", 0, 0 if slim else 1)]


def fault_cond(name, props, templates, g0modes=5, g1modes=5, pin=4, budget=180, nmenu=fam.FAULT_MENU,
               builds=("C",), slim=False):
    return Cond(name, mk_fault(props, templates, nmenu, g0modes, g1modes),
                FAULT_PARAMS(len(templates), nmenu, g0modes, g1modes, slim), pin=pin, builds=builds,
                budget=budget, family="F-FAULT", encodes=ENC_SCHED,
                extra_pre=["_hm.core.unused_ok(%r, t, [s0, s1, s2])" % (templates,)])


# ---------------------------------------------------------------------------------------
# F-REENTRY: synchronous calls from inside tasks / flush bodies while siblings are pending

def _hook_sync(kind_trigger, kind_inner, v):
    state = {"done": False}

    def hook(rt, batch):
        if batch.kind == kind_trigger and not state["done"]:
            state["done"] = True
            rt.ev("hook")
            task_fn(rt, fam.chain("H", 1, kind_inner, v + 50), "H")
    return hook


def mk_reentry(props, K=2):
    def f(pos, spelling, ka, kc, kb, dc, db, fh, p0, p1, ho, v):
        posv, sp = conc(pos, 3), conc(spelling, 3)
        kav, kcv, kbv = conc(ka, K), conc(kc, K), conc(kb, K)
        dcv, dbv = conc(dc, 3), conc(db, 3)
        if sp == 2:
            inner = ITEM(kcv, v + 30)
        else:
            inner = TASK(fam.chain("C", dcv, kcv, v + 30))
        steps = [Y(0, ITEM(kav, v)), Y(0, ITEM(kav, v + 1))]
        steps.insert(posv, SYNC(sp, inner))
        A = TaskD("A", SEQ(*steps))
        Bt = fam.chain("B", dbv, kbv, v + 10)
        td = TaskD("root", Y(4, TASK(A), TASK(Bt)))
        # fh: 0 plain flush bodies; 1 the flush body of kind kb synchronously calls into asynq and waits for an item
        # of the OTHER kind; 2 ... for a new item of its OWN kind (which must join a fresh batch)
        fhv = conc(fh, 3)
        hook = _hook_sync(kbv, (1 - kbv) if fhv == 1 else kbv, v) if fhv else None
        return check_program(td, props, nkinds=K, prio=[p0, p1], hash_order=conc(ho, 2), flush_hook=hook,
                             sig=("reentry", posv, sp, kav, kcv, kbv, dcv, dbv, fhv))
    return f


REENTRY_PARAMS = [I("pos", 0, 2), I("spelling", 0, 2), I("ka", 0, 1), I("kc", 0, 1), I("kb", 0, 1),
                  I("dc", 0, 2), I("db", 0, 2), I("fh", 0, 2), I("p0"), I("p1"), I("ho", 0, 1), I("v")]


# ---------------------------------------------------------------------------------------
# F-SEQ: a task whose consecutive steps mix items, tasks that finish without any flush, tasks that
# block, and constants (a dependency that completes inside the same scheduler pass, followed by a
# yield of a task that has not started yet), next to a sibling chain with pending requests

def seq_step(sel, name, i, v):
    if sel == 0:
        return Y(0, ITEM(0, v + i))
    if sel == 1:
        return Y(0, ITEM(1, v + i))
    if sel == 2:
        return Y(0, TASK(fam.plain_task("%sq%d" % (name, i), v + i)))
    if sel == 3:
        return Y(0, TASK(fam.chain("%sc%d" % (name, i), 1, 0, v + i)))
    if sel == 4:
        return Y(0, TASK(fam.chain("%sd%d" % (name, i), 1, 1, v + i)))
    if sel == 5:
        return Y(0, CONST(v + i))
    if sel == 6:
        return Y(4, TASK(fam.plain_task("%sq%d" % (name, i), v + i)), TASK(fam.chain("%sc%d" % (name, i), 1, 1, v + i)))
    raise AssertionError(sel)


SEQ_MENU = 7


def mk_seq(props, na=3, nb=2, options=None):
    def f(ho, *a):
        sa = [conc(a[i], SEQ_MENU) for i in range(na)]
        kb = [conc(a[na + i], 2) for i in range(nb)]
        p0, p1, v = a[na + nb:na + nb + 3]
        T = TaskD("T", SEQ(*[seq_step(s, "T", i, v) for i, s in enumerate(sa)]))
        Sb = fam.chain_kinds("Sib", kb, v + 50)
        td = TaskD("root", Y(4, TASK(T), TASK(Sb)))
        return check_program(td, props, nkinds=2, prio=[p0, p1], hash_order=conc(ho, 2), options=options,
                             sig=("seq", tuple(sa), tuple(kb), tuple(options or ())))
    return f


def seq_params(na=3, nb=2):
    return ([I("ho", 0, 1)] + [I("s%d" % i, 0, SEQ_MENU - 1) for i in range(na)]
            + [I("kb%d" % i, 0, 1) for i in range(nb)] + [I("p0"), I("p1"), I("v")])


def seq_cond(name, props, na=3, nb=2, budget=200, builds=("C",), options=None):
    return Cond(name, mk_seq(props, na, nb, options), seq_params(na, nb), pin=2, builds=builds, budget=budget,
                family="F-SEQ(%d,%d) mixed steps: items / tasks finishing in-pass / blocking tasks / consts%s" % (
                    na, nb, (" with options %s on" % (list(options),)) if options else ""),
                encodes=ENC_SCHED)


# ---------------------------------------------------------------------------------------
# F-CANCEL: user code cancels a pending batch that other tasks are waiting on

def mk_cancel(props):
    def f(ho, pos, ka, kc, kb0, kb1, ka2, gs, p0, p1, v):
        from harness.prog import CANCEL
        posv = conc(pos, 3)
        kav, kcv, ka2v = conc(ka, 2), conc(kc, 2), conc(ka2, 2)
        steps = [Y(0, ITEM(kav, v)), Y(0, ITEM(ka2v, v + 1))]
        steps.insert(posv, CANCEL(kcv))
        T = TaskD("T", SEQ(*steps))
        gm = conc(gs, 3)
        sib_steps = [fam.guard(Y(0, ITEM(conc(kb0, 2), v + 10)), gm), Y(0, ITEM(conc(kb1, 2), v + 11))]
        Sb = TaskD("Sib", SEQ(*sib_steps))
        td = TaskD("root", fam.guard(Y(4, TASK(T), TASK(Sb)), 2))
        return check_program(td, props, nkinds=2, prio=[p0, p1], hash_order=conc(ho, 2),
                             sig=("cancel", posv, kav, kcv, ka2v, gm))
    return f


CANCEL_PARAMS = [I("ho", 0, 1), I("pos", 0, 2), I("ka", 0, 1), I("kc", 0, 1), I("kb0", 0, 1), I("kb1", 0, 1),
                 I("ka2", 0, 1), I("gs", 0, 2), I("p0"), I("p1"), I("v")]


def cancel_cond(name, props, budget=120):
    return Cond(name, mk_cancel(props), CANCEL_PARAMS, pin=2, builds=("C",), budget=budget,
                family="F-CANCEL: a task cancels a pending batch other tasks wait on", encodes=ENC_SCHED)


# ---------------------------------------------------------------------------------------
# F-DAGSYNC: a synchronous call from inside a task awaits a task that a pending sibling also awaits

def dagsync_prog(ks, ds, ka, kb, pos, sp, order, bshape, v):
    S = fam.chain("S", ds, ks, v + 5)
    C = TaskD("C", Y(0, SHARED("s", S)))
    steps = [Y(0, ITEM(ka, v + 1)), Y(0, ITEM(ka, v + 2))]
    steps.insert(pos, SYNC(sp, TASK(C)))
    A = TaskD("A", SEQ(*steps))
    if bshape == 0:
        Bt = TaskD("B", Y(0, SHARED("s", S)))
    elif bshape == 1:
        Bt = TaskD("B", Y(4, SHARED("s", S), ITEM(kb, v + 3)))
    elif bshape == 2:
        Bt = TaskD("B", Y(4, ITEM(kb, v + 3), SHARED("s", S)))
    else:
        Bt = TaskD("B", SEQ(Y(0, ITEM(kb, v + 3)), Y(0, SHARED("s", S))))
    kids = [TASK(A), TASK(Bt)] if order == 0 else [TASK(Bt), TASK(A)]
    return TaskD("root", Y(4, *kids))


def mk_dagsync(props):
    def f(pos, sp, bshape, ks, ds, ka, kb, order, p0, p1, ho, v):
        td = dagsync_prog(conc(ks, 2), 1 + conc(ds, 2), conc(ka, 2), conc(kb, 2), conc(pos, 3), conc(sp, 2),
                          conc(order, 2), conc(bshape, 4), v)
        return check_program(td, props, nkinds=2, prio=[p0, p1], hash_order=conc(ho, 2),
                             sig=("dagsync", conc(pos, 3), conc(sp, 2), conc(bshape, 4), conc(ks, 2), conc(ds, 2),
                                  conc(ka, 2), conc(kb, 2), conc(order, 2)))
    return f


DAGSYNC_PARAMS = [I("pos", 0, 2), I("sp", 0, 1), I("bshape", 0, 3), I("ks", 0, 1), I("ds", 0, 1), I("ka", 0, 1),
                  I("kb", 0, 1), I("order", 0, 1), I("p0"), I("p1"), I("ho", 0, 1), I("v")]


def dagsync_cond(name, props, budget=150):
    return Cond(name, mk_dagsync(props), DAGSYNC_PARAMS, pin=3, builds=("C",), budget=budget,
                family="F-DAGSYNC: synchronous call awaiting a task shared with a pending sibling",
                encodes=ENC_SCHED)



# ---------------------------------------------------------------------------------------
# a batch whose public flush() raises after flushing: the scheduler's after-event must still fire

def mk_flushraise(props):
    def f(ho, d0, d1, k0, k1, rk, rs, p0, p1, v):
        ds = [conc(d0, 3), conc(d1, 3)]
        ks = [conc(k0, 2), conc(k1, 2)]
        td = fam.tree(ds, ks, [v, v + 1])
        return check_program(td, props, nkinds=2, prio=[p0, p1], hash_order=conc(ho, 2),
                             public_flush_raises=(conc(rk, 2), conc(rs, 2)),
                             sig=("flushraise", tuple(ds), tuple(ks), conc(rk, 2), conc(rs, 2)))
    return f


FLUSHRAISE_PARAMS = [I("ho", 0, 1), I("d0", 0, 2), I("d1", 0, 2), I("k0", 0, 1), I("k1", 0, 1), I("rk", 0, 1),
                     I("rs", 0, 1), I("p0"), I("p1"), I("v")]
