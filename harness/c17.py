"""C17: async generators deliver their Values in order, and only those."""
import asynq
from asynq import asynq as A
from asynq import ConstFuture
from asynq.generator import async_generator, Value, list_of_generator, take_first, END_OF_GENERATOR
from vlib.spec import Cond, I, B
from vlib import rec
from harness.fam import conc, concb
from harness import prog

ENC = ["asynq/generator.py: async_generator, _AsyncGenerator.__iter__/next/send/_send_inner/_get_one_value, "
       "list_of_generator, take_first, Value"]
# (a failing awaited future is deliberately not in the alphabet: the statement does not say where its
# error surfaces - asynq raises it in the consumer, not inside the generator body)
# "Value(future)": the payload of a Value is itself a future - it is delivered as that very object, not awaited
CODES = ["await item", "await const", "Value", "await task", "Value(None)", "Value(future)"]


class _B(asynq.BatchBase):
    cur = [None]

    def _try_switch_active_batch(self):
        if _B.cur[0] is self:
            _B.cur[0] = _B()

    def _flush(self):
        for it in self.items:
            it.set_value(it.v)


class _It(asynq.BatchItemBase):
    def __init__(self, v):
        if _B.cur[0] is None or _B.cur[0].is_flushed():
            _B.cur[0] = _B()
        asynq.BatchItemBase.__init__(self, _B.cur[0])
        self.v = v


def make_gen(codes, vals, consumed, futs, nested=False):
    @A()
    def sub(v):
        r = yield _It(v)
        return r + 1

    @async_generator()
    def inner():
        x = yield _It(vals[0])
        yield Value(("inner", x))

    @async_generator()
    def gen():
        acc = 0
        for i, c in enumerate(codes):
            consumed[0] = i + 1
            if c == 0:
                acc = acc + (yield _It(vals[i]))
            elif c == 1:
                acc = acc + (yield ConstFuture(vals[i]))
            elif c == 2:
                yield Value((i, vals[i], acc))
            elif c == 3:
                acc = acc + (yield sub.asynq(vals[i]))
            elif c == 4:
                yield Value(None)
            elif c == 5:
                yield Value(futs[i])
        consumed[0] = len(codes) + 1
    return gen


def expected_values(codes, vals, futs):
    out = []
    acc = 0
    for i, c in enumerate(codes):
        if c == 0 or c == 1:
            acc = acc + vals[i]
        elif c == 2:
            out.append((i, vals[i], acc))
        elif c == 3:
            acc = acc + vals[i] + 1
        elif c == 4:
            out.append(None)
        elif c == 5:
            out.append(futs[i])
    return out


def mk(L):
    def f(mode, n, n2, *p):
        codes = [conc(p[i], len(CODES)) for i in range(L)]
        ln = conc(p[L], L + 1)
        codes = codes[:ln]
        for i in range(ln, L):
            if p[i] != 0:
                return True         # unused code positions pinned (precondition)
        vals = list(p[L + 1:2 * L + 1])
        md = conc(mode, 4)
        nn, nn2 = conc(n, L + 3), conc(n2, 3)
        rec.clear_fail()
        prog.reset_globals()
        _B.cur[0] = None
        consumed = [0]
        try:
            futs = dict((i, ConstFuture(("payload", i, vals[i]))) for i, c in enumerate(codes) if c == 5)
            gen = make_gen(codes, vals, consumed, futs)
            exp = expected_values(codes, vals, futs)
            desc = "generator body %s" % ([CODES[c] for c in codes],)
            vpos = [i for i, c in enumerate(codes) if c in (2, 4, 5)]
            if md == 0:
                got = list_of_generator(gen())
                if got != exp:
                    return rec.fail("%s: list_of_generator gave %r, Values in order are %r" % (desc, got, exp))
            elif md == 1:
                g = gen()
                got = take_first(g, nn)
                if any(x is END_OF_GENERATOR for x in got):
                    return rec.fail("%s: END_OF_GENERATOR in take_first result" % desc)
                if got != exp[:nn]:
                    return rec.fail("%s: take_first(gen, %d) gave %r, expected %r" % (desc, nn, got, exp[:nn]))
                # consumed no more of the generator than needed for the n-th Value
                if nn == 0:
                    limit = 0
                elif nn <= len(vpos):
                    limit = vpos[nn - 1] + 1
                else:
                    limit = len(codes) + 1
                if consumed[0] > limit:
                    return rec.fail("%s: take_first(gen, %d) consumed the body through position %d, needed only %d"
                                    % (desc, nn, consumed[0], limit))
                # a second take_first continues where the first stopped
                got2 = take_first(g, nn2)
                if got2 != exp[nn:nn + nn2] and nn <= len(exp):
                    return rec.fail("%s: second take_first(gen, %d) after take_first(gen, %d) gave %r, expected %r"
                                    % (desc, nn2, nn, got2, exp[nn:nn + nn2]))
            elif md == 2:
                # documented manual iteration; advancing before the task is computed raises RuntimeError
                g = gen()
                out = []
                err = [None]

                @A()
                def consume():
                    first = True
                    for task in g:
                        if first and not task.is_computed():
                            first = False
                            for attempt in (1, 2, 3):
                                # every premature attempt is refused, not only the first one
                                try:
                                    next(g)
                                    err[0] = ("advancing before the previous task was computed did not raise "
                                              "(attempt %d)" % attempt)
                                    break
                                except RuntimeError:
                                    pass
                        v = yield task
                        if v is END_OF_GENERATOR:
                            continue
                        out.append(v)
                try:
                    consume()
                except Exception as e:
                    prog.reraise_control(e)
                    return rec.fail("%s: documented manual iteration (with refused premature advances) raised %r; %s"
                                    % (desc, e, err[0]))
                if err[0]:
                    return rec.fail("%s: %s" % (desc, err[0]))
                if out != exp:
                    return rec.fail("%s: manual iteration gave %r expected %r" % (desc, out, exp))
                # a second consumer must not advance while the returned task has started but is still blocked
                g2 = gen()
                try:
                    first = next(g2)
                except StopIteration:
                    first = None
                if first is not None and not first.is_computed():
                    seen = []

                    @A()
                    def intruder():
                        # runs after `first` has started (it is yielded after it) and while it waits for a flush
                        for _attempt in (1, 2):
                            try:
                                next(g2)
                                seen.append("advanced")
                            except RuntimeError:
                                seen.append("RuntimeError")
                            except StopIteration:
                                seen.append("StopIteration")
                        return None
                        yield

                    @A()
                    def both():
                        yield [first, intruder.asynq()]
                    both()
                    if first.is_computed() and seen and seen[0] == "advanced":
                        # legal only if `first` was already computed when the intruder ran
                        pass
                    if seen and any(x != "RuntimeError" for x in seen) and codes and codes[0] in (0, 3):
                        return rec.fail("%s: advancing the generator while the previously returned task was started "
                                        "but still blocked on a batch did not raise RuntimeError (attempts: %s)" % (desc, seen))
                # exhausted generator keeps raising StopIteration
                for _ in range(2):
                    try:
                        next(g)
                        return rec.fail("%s: exhausted generator did not raise StopIteration" % desc)
                    except StopIteration:
                        pass
            else:
                # str/repr never raise (C18 also checks this)
                g = gen()
                try:
                    repr(g)
                    take_first(g, 1)
                    repr(g)
                except Exception as e:
                    prog.reraise_control(e)
                    return rec.fail("%s: repr(generator) raised %r" % (desc, e))
            rec.wit("paths")
            rec.done(("c17", md, tuple(codes), nn, nn2), True)
            return True
        finally:
            prog.reset_globals()
    return f


def params(L):
    return ([I("mode", 0, 2), I("n", 0, L + 2), I("n2", 0, 2)] + [I("c%d" % i, 0, len(CODES) - 1) for i in range(L)]
            + [I("len", 0, L)] + [I("v%d" % i) for i in range(L)])


def conds(tier):
    q = tier == "quick"
    L = 4 if q else 5
    return [Cond("bodies", mk(L), params(L), pin=4, builds=("C",), budget=300 if q else 1800,
                 family="generator bodies of <= %d codes x list_of_generator / take_first(n), take_first(n2) / manual"
                        % L, encodes=ENC,
                 extra_pre=["(mode == 1) or (n == 0 and n2 == 0)"] + (["n2 <= 1 or n <= 2"] if q else []),
                 shard_filter=lambda mode, n, n2, c0: (mode == 1 or (n == 0 and n2 == 0)) and (not q or n2 <= 1 or n <= 2))]
