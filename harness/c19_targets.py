"""Patch targets for the C19 harness (module-level so that patch('harness.c19_targets.X') resolves)."""
import asynq


@asynq.asynq()
def fn(x, y=1):
    return ("orig-fn", x, y)


class Cls(object):
    linked = "plain attribute"
    table = {"a": 1}

    def __init__(self, t=0):
        self.t = t

    @asynq.asynq()
    def meth(self, x, y=1):
        return ("orig-meth", self.t, x, y)

    @asynq.asynq()
    @classmethod
    def cmeth(cls, x, y=1):
        return ("orig-cmeth", cls.__name__, x, y)

    @asynq.asynq()
    @staticmethod
    def smeth(x, y=1):
        return ("orig-smeth", x, y)


class VCls(object):
    """a value object: instances with the same .val are equal and hash alike; .t tells them apart"""

    def __init__(self, t=0, val="same"):
        self.t = t
        self.val = val

    def __eq__(self, other):
        return isinstance(other, VCls) and other.val == self.val

    def __hash__(self):
        return 23

    @asynq.asynq()
    def meth(self, x, y=1):
        return ("orig-vmeth", self.t, x, y)
