"""Patch targets for the C19 harness (module-level so that patch('harness.c19_targets.X') resolves)."""
import asynq


@asynq.asynq()
def fn(x, y=1):
    return ("orig-fn", x, y)


class Cls(object):
    linked = "plain attribute"
    table = {"a": 1}

    def __init__(self, t=0):
        self.t = t

    @asynq.asynq()
    def meth(self, x, y=1):
        return ("orig-meth", self.t, x, y)

    @asynq.asynq()
    @classmethod
    def cmeth(cls, x, y=1):
        return ("orig-cmeth", cls.__name__, x, y)

    @asynq.asynq()
    @staticmethod
    def smeth(x, y=1):
        return ("orig-smeth", x, y)
