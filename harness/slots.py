"""C20 (b): C-typed slots of the Cython build (DESIGN.md section 6).

Regenerated on every run from /repo/asynq/*.pxd and *.py:
  1. every numeric C-typed member of a cdef class, every numeric C-typed parameter of a cdef/cpdef method;
  2. every store into such a member / call passing an argument in such a position (AST walk);
  3. the stored expression -> SMT-LIB2 integer term (clock readings are unconstrained non-decreasing
     integers under the stated contract, len()/counters fresh bounded integers, reads of a typed accumulator
     constrained by a strengthened invariant);
  4. query: can the value leave the C type's range?  unsat on every solver = range-safe within the contract;
     sat = concrete clock readings, replayed on the compiled build with a stub clock.
"""
import ast
import glob
import json
import os
import re
import subprocess
import sys
import tempfile
import time

REPO = os.environ.get("VERIF_REPO", "/repo")
H_US = 24 * 3600 * 10 ** 6          # contract: one task step / one flush lasts at most 24 h
N_UPD = 10 ** 4                     # contract: at most 10^4 updates of one accumulator
T_MAX = 2 ** 62                     # clock readings are positive and below 2^62 microseconds

C_RANGES = {
    "int": (-2 ** 31, 2 ** 31 - 1),
    "long": (-2 ** 63, 2 ** 63 - 1),
    "long long": (-2 ** 63, 2 ** 63 - 1),
    "short": (-2 ** 15, 2 ** 15 - 1),
    "unsigned int": (0, 2 ** 32 - 1),
    "Py_ssize_t": (-2 ** 63, 2 ** 63 - 1),
}


def parse_pxd():
    """-> (fields: {(cls, name): ctype}, params: {(cls, method): [(pos, pname, ctype)]})"""
    fields, params = {}, {}
    for path in sorted(glob.glob(os.path.join(REPO, "asynq", "*.pxd"))):
        mod = os.path.basename(path)[:-4]
        cls = None
        for line in open(path):
            m = re.match(r"^cdef class (\w+)", line)
            if m:
                cls = m.group(1)
                continue
            if line and not line[0].isspace() and line.strip():
                if not line.startswith("cdef class"):
                    cls = None if re.match(r"^(cdef|cpdef|@)", line) else cls
            m = re.match(r"^\s+cdef public ((?:unsigned )?(?:long long|int|long|short|Py_ssize_t|float|double)) (\w+)\s*$", line)
            if m and cls:
                fields[(mod, cls, m.group(2))] = m.group(1)
                continue
            m = re.match(r"^\s*c?p?def [\w\.\* ]*?(\w+)\((.*)\)", line)
            if m:
                meth, args = m.group(1), m.group(2)
                plist = []
                for pos, a in enumerate(x.strip() for x in args.split(",")):
                    pm = re.match(r"^((?:unsigned )?(?:long long|int|long|short|Py_ssize_t|float|double)) (\w+)", a)
                    if pm:
                        plist.append((pos, pm.group(2), pm.group(1)))
                if plist:
                    params[(mod, cls, meth)] = plist
    return fields, params


class Site(object):
    def __init__(self, mod, func, lineno, kind, target, ctype, expr, node, fn_node):
        self.mod, self.func, self.lineno = mod, func, lineno
        self.kind, self.target, self.ctype = kind, target, ctype
        self.expr, self.node, self.fn_node = expr, node, fn_node

    def where(self):
        return "asynq/%s.py:%d %s" % (self.mod, self.lineno, self.func)


def find_sites(fields, params):
    fnames = {}
    for (mod, cls, name), ct in fields.items():
        fnames.setdefault(name, set()).add(ct)
    pnames = {}
    for (mod, cls, meth), pl in params.items():
        pnames.setdefault(meth, []).append(pl)
    sites = []
    for path in sorted(glob.glob(os.path.join(REPO, "asynq", "*.py"))):
        mod = os.path.basename(path)[:-3]
        try:
            tree = ast.parse(open(path).read())
        except SyntaxError:
            continue
        for fn in ast.walk(tree):
            if not isinstance(fn, (ast.FunctionDef, ast.AsyncFunctionDef)):
                continue
            for node in ast.walk(fn):
                if isinstance(node, ast.Assign):
                    for t in node.targets:
                        if isinstance(t, ast.Attribute) and t.attr in fnames:
                            for ct in fnames[t.attr]:
                                sites.append(Site(mod, fn.name, node.lineno, "store", t.attr, ct, node.value, node, fn))
                elif isinstance(node, ast.AugAssign):
                    t = node.target
                    if isinstance(t, ast.Attribute) and t.attr in fnames and isinstance(node.op, (ast.Add, ast.Sub)):
                        for ct in fnames[t.attr]:
                            sites.append(Site(mod, fn.name, node.lineno, "augstore", t.attr, ct, node.value, node, fn))
                elif isinstance(node, ast.Call) and isinstance(node.func, ast.Attribute) and node.func.attr in pnames:
                    for pl in pnames[node.func.attr]:
                        for pos, pname, ct in pl:
                            idx = pos - 1       # drop self
                            if 0 <= idx < len(node.args):
                                sites.append(Site(mod, fn.name, node.lineno, "arg", "%s(%s)" % (node.func.attr, pname),
                                                  ct, node.args[idx], node, fn))
    # de-duplicate (same site listed for several classes with the same field type)
    seen, out = set(), []
    for s in sites:
        k = (s.mod, s.lineno, s.target, s.ctype, s.kind)
        if k not in seen:
            seen.add(k)
            out.append(s)
    return out


class Unencodable(Exception):
    pass


def lit(n):
    return str(n) if n >= 0 else "(- %d)" % (-n)


# invariants of typed *parameters* that are stronger than their C range (part of the stated contract):
# dump(indent) is entered with a constant (0 or 4) and grows by 1-2 per nesting level of tasks/batches
PARAM_INVARIANTS = {"indent": (0, 10 ** 6)}


class Enc(object):
    """SMT-LIB2 encoding environment of one site."""

    def __init__(self, site, fields):
        self.site = site
        self.decls = []
        self.asserts = []
        self.clock = []
        self.n = 0
        self.fieldtypes = {}
        for (m, c, name), ct in fields.items():
            self.fieldtypes.setdefault(name, ct)
        self.local_defs = self._local_defs(site.fn_node, site.lineno)

    def fresh(self, base, lo=None, hi=None):
        self.n += 1
        v = "%s_%d" % (base, self.n)
        self.decls.append("(declare-const %s Int)" % v)
        if lo is not None:
            self.asserts.append("(>= %s %s)" % (v, lit(lo)))
        if hi is not None:
            self.asserts.append("(<= %s %s)" % (v, lit(hi)))
        return v

    def clock_read(self):
        v = self.fresh("t", 1, T_MAX)
        if self.clock:
            prev = self.clock[-1]
            self.asserts.append("(>= %s %s)" % (v, prev))
            self.asserts.append("(<= (- %s %s) %d)" % (v, prev, H_US))
        self.clock.append(v)
        return v

    def _local_defs(self, fn, before):
        """straight-line assignments `name = expr` in the function that precede the site (last one wins)"""
        defs = {}
        for node in ast.walk(fn):
            if isinstance(node, ast.Assign) and len(node.targets) == 1 and isinstance(node.targets[0], ast.Name):
                if node.lineno < before:
                    cur = defs.get(node.targets[0].id)
                    if cur is None or cur.lineno < node.lineno:
                        defs[node.targets[0].id] = node
        return defs

    def term(self, e, depth=0):
        if depth > 6:
            raise Unencodable("expression too deep")
        if isinstance(e, ast.Constant) and isinstance(e.value, bool):
            return "1" if e.value else "0"
        if isinstance(e, ast.Constant) and isinstance(e.value, int):
            return str(e.value) if e.value >= 0 else "(- %d)" % (-e.value)
        if isinstance(e, ast.Constant) and isinstance(e.value, float):
            raise Unencodable("float constant")
        if isinstance(e, ast.BinOp) and isinstance(e.op, (ast.Add, ast.Sub, ast.Mult)):
            op = {ast.Add: "+", ast.Sub: "-", ast.Mult: "*"}[type(e.op)]
            return "(%s %s %s)" % (op, self.term(e.left, depth + 1), self.term(e.right, depth + 1))
        if isinstance(e, ast.Call):
            f = e.func
            name = f.id if isinstance(f, ast.Name) else f.attr if isinstance(f, ast.Attribute) else None
            if name == "utime":
                return self.clock_read()
            if name == "len":
                return self.fresh("len", 0, 10 ** 9)
            if name == "incr_counter":
                return self.fresh("counter", 1, 10 ** 9)
            if name == "time":
                raise Unencodable("float clock time.time()")
            raise Unencodable("call %s()" % name)
        if isinstance(e, ast.Name):
            d = self.local_defs.get(e.id)
            if d is not None:
                # a clock reading taken earlier in the same function must precede later ones
                return self.term(d.value, depth + 1)
            # parameter of the enclosing function: typed C parameter -> already inside its own range
            for a in self.site.fn_node.args.args:
                if a.arg == e.id:
                    return self.param(e.id)
            raise Unencodable("free name %s" % e.id)
        if isinstance(e, ast.Attribute) and e.attr in self.fieldtypes:
            return self.field_read(e.attr)
        raise Unencodable(ast.dump(e)[:60])

    def param(self, name):
        # typed parameter: the value was range-checked when it was converted at the call
        ct = self.param_type(name)
        if ct is None or ct not in C_RANGES:
            raise Unencodable("untyped parameter %s" % name)
        lo, hi = C_RANGES[ct]
        if name in PARAM_INVARIANTS:
            lo, hi = max(lo, PARAM_INVARIANTS[name][0]), min(hi, PARAM_INVARIANTS[name][1])
        return self.fresh("p_" + name, lo, hi)

    def param_type(self, name):
        for (mod, cls, meth), pl in PARAMS.items():
            if meth == self.site.func:
                for pos, pname, ct in pl:
                    if pname == name:
                        return ct
        return None

    def field_read(self, name):
        """read of a typed member: strengthened invariant, not merely 'within its C range'"""
        if name == "_total_time":
            k = self.fresh("k", 0, N_UPD - 1)
            v = self.fresh("acc", 0, None)
            self.asserts.append("(<= %s (* %s %d))" % (v, k, H_US))
            return v
        ct = self.fieldtypes[name]
        if ct not in C_RANGES:
            raise Unencodable("read of %s field" % ct)
        lo, hi = C_RANGES[ct]
        return self.fresh("f_" + name, max(lo, 0), min(hi, 10 ** 9))


PARAMS = {}


def site_query(site, fields):
    """-> (smtlib text, description) asking whether the stored value can leave the C range"""
    if site.ctype not in C_RANGES:
        raise Unencodable("%s slot: only range-checked for integers (no exception possible from rounding)" % site.ctype)
    enc = Enc(site, fields)
    # clock readings taken earlier in the function and bound to locals are encoded first (program order)
    val = None
    if site.kind == "augstore":
        old = enc.field_read(site.target)
        # the local read (e.g. start = utime()) precedes the one inside the expression
        rhs = None
        # evaluate names first so that t_start <= t_now
        names = [n for n in ast.walk(site.expr) if isinstance(n, ast.Name) and n.id in enc.local_defs]
        pre = {}
        for n in names:
            pre[n.id] = enc.term(enc.local_defs[n.id].value)
        rhs = enc_with(enc, site.expr, pre)
        op = "+" if isinstance(site.node.op, ast.Add) else "-"
        val = "(%s %s %s)" % (op, old, rhs)
    else:
        names = [n for n in ast.walk(site.expr) if isinstance(n, ast.Name) and n.id in enc.local_defs]
        pre = {}
        for n in names:
            pre[n.id] = enc.term(enc.local_defs[n.id].value)
        val = enc_with(enc, site.expr, pre)
    lo, hi = C_RANGES[site.ctype]
    lines = ["(set-logic QF_NIA)"] + enc.decls + ["(assert %s)" % a for a in enc.asserts]
    lines.append("(define-fun stored () Int %s)" % val)
    lines.append("(assert (or (< stored %s) (> stored %s)))" % (lit(lo), lit(hi)))
    lines.append("(check-sat)")
    lines.append("(get-model)")
    return "\n".join(lines) + "\n", enc


def enc_with(enc, expr, pre):
    """encode expr using pre-encoded local names"""
    class T(ast.NodeTransformer):
        pass
    def go(e, depth=0):
        if isinstance(e, ast.Name) and e.id in pre:
            return pre[e.id]
        if isinstance(e, ast.BinOp) and isinstance(e.op, (ast.Add, ast.Sub, ast.Mult)):
            op = {ast.Add: "+", ast.Sub: "-", ast.Mult: "*"}[type(e.op)]
            return "(%s %s %s)" % (op, go(e.left, depth + 1), go(e.right, depth + 1))
        return enc.term(e, depth)
    return go(expr)


SOLVERS = [("z3-4.8.12", ["/usr/bin/z3", "-smt2", "-T:60"]), ("z3-5.1", ["z3-new", "-smt2", "-T:60"]),
           ("cvc5-1.0.3", ["cvc5", "--lang=smt2", "--tlimit=60000", "--produce-models"])]


def run_solvers(smt):
    out = {}
    with tempfile.NamedTemporaryFile("w", suffix=".smt2", delete=False) as f:
        f.write(smt)
        path = f.name
    try:
        for name, cmd in SOLVERS:
            t0 = time.time()
            try:
                p = subprocess.run(cmd + [path], stdout=subprocess.PIPE, stderr=subprocess.STDOUT, text=True, timeout=90)
                txt = p.stdout
            except Exception as e:
                txt = "error: %r" % (e,)
            first = txt.strip().splitlines()[0].strip() if txt.strip() else "error"
            if "(error" in txt and first not in ("sat", "unsat"):
                first = "error"
            if first == "unsat" and "(error" in txt:
                # (get-model) after unsat legitimately errors; anything else is suspicious
                errs = [l for l in txt.splitlines() if "(error" in l and "model is not available" not in l
                        and "Cannot get model" not in l and "cannot get model" not in l.lower()]
                if errs:
                    first = "error"
            out[name] = {"answer": first, "time_s": round(time.time() - t0, 3), "raw": txt[:600]}
    finally:
        os.remove(path)
    return out


def parse_model(raw):
    m = {}
    for name, val in re.findall(r"\(define-fun (\w+) \(\) Int\s+(\(- \d+\)|\d+)\)", raw):
        m[name] = -int(val[3:-1]) if val.startswith("(") else int(val)
    return m


REPLAY_DRIVER = r'''
import sys, json
sys.path.insert(0, sys.argv[1])
import asynq
from asynq import scheduler as S, _debug as DBG, profiler as PF
readings = json.loads(sys.argv[2])
class B(asynq.BatchBase):
    cur = [None]
    def _try_switch_active_batch(self):
        if B.cur[0] is self: B.cur[0] = B()
    def _flush(self):
        for it in self.items: it.set_value(1)
class It(asynq.BatchItemBase):
    def __init__(self):
        if B.cur[0] is None or B.cur[0].is_flushed(): B.cur[0] = B()
        asynq.BatchItemBase.__init__(self, B.cur[0])
@asynq.asynq()
def step():
    x = yield It()
    return x + 1
def run(perf):
    S.reset(); PF.reset(); B.cur[0] = None
    it = iter(readings)
    last = [readings[-1]]
    def clock():
        try:
            last[0] = next(it)
        except StopIteration:
            pass
        return last[0]
    old = S.utime
    S.utime = clock
    DBG.options.COLLECT_PERF_STATS = perf
    try:
        try:
            return ("v", step())
        except Exception as e:
            return ("e", type(e).__name__, str(e)[:100])
    finally:
        S.utime = old
        DBG.options.COLLECT_PERF_STATS = False
        stale = asynq.get_active_task() is not None
        S.reset()
        if stale: print("STALE-ACTIVE-TASK")
base = run(False)
withp = run(True)
print(json.dumps({"default": base, "perf": withp}))
'''


def replay(model, build_c_dir):
    ts = sorted(v for k, v in model.items() if k.startswith("t_"))
    if not ts:
        return {"reproduced": None, "why": "model has no clock readings"}
    readings = []
    for t in ts:
        readings.append(t)
    # the same pair is offered to every profiled region (task step, flush)
    seq = [readings[0], readings[-1]] * 4
    py = os.path.join(os.path.dirname(os.path.dirname(os.path.abspath(__file__))), ".venv", "bin", "python")
    with tempfile.NamedTemporaryFile("w", suffix=".py", delete=False) as f:
        f.write(REPLAY_DRIVER)
        drv = f.name
    try:
        p = subprocess.run([py, drv, build_c_dir, json.dumps(seq)], stdout=subprocess.PIPE, stderr=subprocess.STDOUT,
                           text=True, timeout=120)
        line = [l for l in p.stdout.splitlines() if l.startswith("{")]
        if not line:
            return {"reproduced": None, "why": "replay driver failed: " + p.stdout[-300:]}
        r = json.loads(line[-1])
        return {"reproduced": r["default"] != r["perf"], "default": r["default"], "with_COLLECT_PERF_STATS": r["perf"],
                "clock_readings": seq[:2], "stale_active_task": "STALE-ACTIVE-TASK" in p.stdout}
    finally:
        os.remove(drv)


def validate_translator(build_c_dir):
    """push small literal clock values (those of the profiler test: steps of a few microseconds) through both
    the encoding's arithmetic and the real compiled code"""
    r = replay({"t_1": 1000, "t_2": 1007}, build_c_dir)
    return {"small_readings_agree": r.get("reproduced") is False, "detail": r}


def analyse(build_c_dir):
    global PARAMS
    t0 = time.time()
    fields, params = parse_pxd()
    PARAMS = params
    sites = find_sites(fields, params)
    report = {"typed_fields": {"%s.%s.%s" % k: v for k, v in fields.items()},
              "typed_params": {"%s.%s.%s" % (k[0], k[1], k[2]): v for k, v in params.items()},
              "contract": {"max_step_us": H_US, "max_updates": N_UPD, "clock": "positive non-decreasing integers < 2^62",
                           "parameter_invariants": PARAM_INVARIANTS},
              "sites": [], "queries": 0, "solver_s": 0.0}
    violations = []
    for s in sites:
        entry = {"where": s.where(), "kind": s.kind, "target": s.target, "ctype": s.ctype,
                 "expr": ast.unparse(s.expr)}
        try:
            smt, enc = site_query(s, fields)
        except Unencodable as e:
            entry["status"] = "unencodable"
            entry["reason"] = str(e)
            report["sites"].append(entry)
            continue
        res = run_solvers(smt)
        report["queries"] += len(res)
        report["solver_s"] += sum(r["time_s"] for r in res.values())
        answers = sorted(set(r["answer"] for r in res.values()))
        entry["answers"] = {k: v["answer"] for k, v in res.items()}
        entry["smt_sha"] = __import__("hashlib").md5(smt.encode()).hexdigest()[:10]
        if answers == ["unsat"]:
            entry["status"] = "range-safe within the contract"
        elif answers == ["sat"]:
            model = {}
            for r in res.values():
                model = parse_model(r["raw"]) or model
            entry["model"] = model
            rp = replay(model, build_c_dir)
            entry["replay"] = rp
            if rp.get("reproduced"):
                entry["status"] = "VIOLATION (replayed on the compiled build)"
                violations.append(entry)
            else:
                entry["status"] = "sat but not reproduced by the replay driver (inconclusive)"
        else:
            entry["status"] = "inconclusive (solvers disagree or error): %s" % answers
        report["sites"].append(entry)
    report["translator_validation"] = validate_translator(build_c_dir)
    report["wall_s"] = round(time.time() - t0, 2)
    report["solver_s"] = round(report["solver_s"], 2)
    return report, violations


if __name__ == "__main__":
    rep, viol = analyse(sys.argv[1])
    print(json.dumps(rep, indent=1)[:6000])
    print("violations:", len(viol))
