"""C08: active task is the running one; scheduler is clean after any outcome (histories)."""
from vlib.spec import Cond, I, B
from harness import core, fam, ctx
from harness.fam import conc, concb
from harness.prog import (CONST, check_history, TaskD, SEQ, Y, TASK, ITEM, WITH, TRY, SYNC, RAISE, READ, LAZY,
                          ERRFUT, OBJ)
from asynq import _debug as _adebug

P = {"c08"}


def canary(v):
    return {"td": fam.tree([2, 1, 0], [0, 0, 0], [v, v + 1, v + 2]), "props": {"c01", "c03", "c04", "c08"},
            "compare": True, "nkinds": 1, "prio": [0], "expect_flushes": 2}


def comp_fault(sel0, sel1, g0, g1, v):
    slots = [fam.menu_slot(sel0, 0, v), fam.menu_slot(sel1, 1, v + 1)]
    mid = TaskD("mid", SEQ(Y(0, fam.KEEP("pre", ITEM(0, v + 7))), fam.guard(Y(4, *slots), g1), Y(0, ITEM(1, v + 5))))
    sib = fam.chain("sib", 2, 1, v + 20)
    td = TaskD("root", SEQ(fam.guard(Y(4, TASK(mid), TASK(sib)), g0), Y(0, ITEM(0, v + 9))))
    return {"td": td, "props": {"c08", "c02"}, "compare": True}


def comp_ctxraise(which, k, nest, guardmode, kk, v):
    spec = ("rec", "X", ("resume" if which == 0 else "pause", k))
    inner = SEQ(Y(0, ITEM(kk, v)), Y(0, ITEM(1 - kk, v + 1)), Y(0, ITEM(kk, v + 2)))
    if nest == 0:
        block = WITH(spec, inner)
    elif nest == 1:
        block = WITH(("rec", "O"), WITH(spec, inner))
    else:
        block = WITH(spec, WITH(("rec", "I"), inner))
    T0 = TaskD("T0", fam.guard(block, guardmode))
    T1 = fam.chain("T1", 3, 1, v + 10)
    td = TaskD("root", fam.guard(Y(4, TASK(T0), TASK(T1)), 2))
    return {"td": td, "props": {"c08"}, "compare": False}


def comp_stack(depth, limit, v, side=0):
    if side >= 2:
        # room for the caller's own stack entries and the sibling's items below the nested call
        depth, limit = depth + 3, limit + 5
    t = fam.chain("leaf", 1, 0, v)
    for i in range(depth):
        t = TaskD("n%d" % i, Y(0, TASK(t)))
    if side:
        # a sibling whose three batch items are already scheduled (it runs first) when the guard fires further
        # down the other branch: the aborted computation leaves a pending batch bigger than any of the canary's
        sib = TaskD("side", Y(17, ITEM(0, v + 30), ITEM(0, v + 31), ITEM(0, v + 32)))
        t = TaskD("top", Y(4, TASK(sib), TASK(t)))
    if side >= 2:
        # the runaway computation sits below a nested synchronous call made by a task that already holds a pending
        # item of its own
        t = TaskD("outer", SEQ(Y(0, CONST(v)), SYNC(0, TASK(t)), Y(0, ITEM(1, v + 40))))
        if side == 3:
            t = TaskD("outer0", Y(4, TASK(t), TASK(fam.chain("osib", 1, 1, v + 44))))
    old = [None]

    def setup():
        old[0] = _adebug.options.MAX_TASK_STACK_SIZE
        _adebug.options.MAX_TASK_STACK_SIZE = limit
        import asynq.debug as d
        old.append(d.options.DUMP_PRE_ERROR_STATE)
        d.options.DUMP_PRE_ERROR_STATE = False

    def teardown():
        _adebug.options.MAX_TASK_STACK_SIZE = old[0]
        import asynq.debug as d
        d.options.DUMP_PRE_ERROR_STATE = old[1]
    return {"td": t, "props": {"c08"}, "compare": False, "setup": setup, "teardown": teardown}


def mk_hist_fault(two=False):
    def f(s0, s1, g0, g1, t0, t1, h0, h1, v):
        c1 = comp_fault(conc(s0, fam.FAULT_MENU), conc(s1, fam.FAULT_MENU), conc(g0, 5), conc(g1, 5), v)
        comps = [c1]
        if two:
            comps.append(comp_fault(conc(t0, fam.FAULT_MENU), conc(t1, fam.FAULT_MENU), conc(h0, 5), conc(h1, 5), v + 3))
        comps.append(canary(v + 50))
        return check_history(comps, sig=("hfault", conc(s0, fam.FAULT_MENU), conc(s1, fam.FAULT_MENU), conc(g0, 5), conc(g1, 5)))
    return f


def mk_hist_ctx(two=False):
    def f(which, k, nest, gm, kk, which2, k2, v):
        comps = [comp_ctxraise(conc(which, 2), 1 + conc(k, 4), conc(nest, 3), conc(gm, 5), conc(kk, 2), v)]
        if two:
            comps.append(comp_ctxraise(conc(which2, 2), 1 + conc(k2, 4), 0, 0, 1 - conc(kk, 2), v + 5))
        comps.append(canary(v + 50))
        return check_history(comps, sig=("hctx", conc(which, 2), conc(k, 4), conc(nest, 3), conc(gm, 5)))
    return f


def mk_hist_stack():
    def f(depth, limit, side, v):
        can = canary(v + 50)
        can["check_stale_after"] = True
        comps = [comp_stack(conc(depth, 6), 1 + conc(limit, 6), v, conc(side, 4)), can]
        return check_history(comps, sig=("hstack", conc(depth, 6), conc(limit, 6), conc(side, 4)))
    return f


def mk_elsewhere(props):
    """tasks waited for somewhere else than where they were created"""
    from harness.prog import WAITPRE, STASH, check_program
    def f(variant, kp, ka, pos, p0, p1, ho, v):
        var, kpv, kav, posv = conc(variant, 3), conc(kp, 2), conc(ka, 2), conc(pos, 3)
        pre = {}
        steps = [Y(0, ITEM(kav, v)), Y(0, ITEM(kav, v + 1))]
        if var in (0, 2):
            pre["p"] = fam.chain("P", 1, kpv, v + 40)
            steps.insert(posv, WAITPRE("p"))
        if var in (1, 2):
            steps.insert(posv, STASH("s", fam.chain("St", 1, kpv, v + 60)))
        A = TaskD("A", SEQ(*steps))
        td = TaskD("root", Y(4, TASK(A), TASK(fam.chain("B", 2, 1 - kav, v + 10))))
        return check_program(td, props, nkinds=2, prio=[p0, p1], hash_order=conc(ho, 2), precreate=pre,
                             sig=("elsewhere", var, kpv, kav, posv))
    return f


def conds(tier):
    q = tier == "quick"
    out = []
    out.append(Cond("reentry", core.mk_reentry(P), core.REENTRY_PARAMS, pin=3, budget=150,
                    family="F-REENTRY active task at every step and after nested calls", encodes=core.ENC_SCHED))
    out.append(Cond("hist_fault", mk_hist_fault(False),
                    [I("s0", 0, fam.FAULT_MENU - 1), I("s1", 0, fam.FAULT_MENU - 1), I("g0", 0, 4), I("g1", 0, 4), I("t0", 0, 0), I("t1", 0, 0),
                     I("h0", 0, 0), I("h1", 0, 0), I("v")], pin=2, budget=200,
                    family="F-HIST [faulty computation, canary]", encodes=core.ENC_SCHED))
    out.append(Cond("hist_ctx", mk_hist_ctx(False),
                    [I("which", 0, 1), I("k", 0, 3), I("nest", 0, 2), I("gm", 0, 4), I("kk", 0, 1),
                     I("which2", 0, 0), I("k2", 0, 0), I("v")], pin=2, budget=200,
                    family="F-HIST [context whose k-th resume/pause raises, canary]", encodes=ctx.ENC_CTX))
    out.append(Cond("elsewhere", mk_elsewhere({"c08", "c01"}),
                    [I("variant", 0, 2), I("kp", 0, 1), I("ka", 0, 1), I("pos", 0, 2), I("p0"), I("p1"), I("ho", 0, 1),
                     I("v")], pin=2, budget=100, family="tasks created at top level and waited for inside a task / "
                    "created inside a task and waited for at top level", encodes=core.ENC_SCHED))
    out.append(Cond("hist_stack", mk_hist_stack(), [I("depth", 0, 5), I("limit", 0, 5), I("side", 0, 3), I("v")], pin=1,
                    budget=100, family="F-HIST [MAX_TASK_STACK_SIZE RuntimeError, canary]", encodes=core.ENC_SCHED))
    out.append(Cond("tree", core.mk_tree(P, 3, 2, 2), core.tree_params(3, 2, 2), builds=("C", "P"), pin=3, budget=120,
                    family="F-TREE(3,2,2)", encodes=core.ENC_SCHED))
    out.append(core.dagsync_cond("dagsync", P))
    if not q:
        out.append(Cond("hist_fault2", mk_hist_fault(True),
                        [I("s0", 8, fam.FAULT_MENU - 1), I("s1", 0, 3), I("g0", 0, 1), I("g1", 0, 1),
                         I("t0", 8, fam.FAULT_MENU - 1), I("t1", 2, 2), I("h0", 0, 0), I("h1", 0, 1), I("v")], pin=2,
                        budget=1800, family="F-HIST [faulty, faulty, canary]", encodes=core.ENC_SCHED))
        out.append(Cond("hist_ctx2", mk_hist_ctx(True),
                        [I("which", 0, 1), I("k", 0, 3), I("nest", 0, 2), I("gm", 0, 4), I("kk", 0, 1),
                         I("which2", 0, 1), I("k2", 0, 3), I("v")], pin=2, budget=900,
                        family="F-HIST [raising ctx, raising ctx, canary]", encodes=ctx.ENC_CTX))
    return out
