"""C08: active task is the running one; scheduler clean after any outcome."""
from vlib.spec import Cond, I, B
from harness import core, fam

P = {"c08"}


def conds(tier):
    q = tier == "quick"
    out = []
    out.append(Cond("reentry", core.mk_reentry(P), core.REENTRY_PARAMS, pin=3, budget=150,
                    family="F-REENTRY", encodes=core.ENC_SCHED))
    out.append(core.fault_cond("fault", P, [4, 6], g0modes=5, g1modes=3, pin=4, budget=300))
    out.append(Cond("tree", core.mk_tree(P, 3, 2, 2), core.tree_params(3, 2, 2), pin=3, budget=120,
                    family="F-TREE(3,2,2)", encodes=core.ENC_SCHED))
    return out
