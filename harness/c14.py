"""C14: collection helpers equal their built-in counterparts, in one batching round."""
import itertools

import asynq
from asynq import asynq as A
from asynq.tools import amap, afilter, afilterfalse, asorted, amax, amin, asift, aretry
from vlib.spec import Cond, I, B
from vlib import rec
from harness.fam import conc, concb
from harness import prog

ENC = ["asynq/tools.py: amap, afilter, afilterfalse, asorted, amax, amin, asift, aretry"]
HELPERS = ["amap", "afilter", "afilterfalse", "asorted", "amax", "amin", "asift", "afilter(None)",
           "asorted(no key)", "amax(no key)", "amin(no key)"]


class _B(asynq.BatchBase):
    cur = [None]
    nflush = [0]

    def _try_switch_active_batch(self):
        if _B.cur[0] is self:
            _B.cur[0] = _B()

    def _flush(self):
        _B.nflush[0] += 1
        for it in self.items:
            it.set_value(it.v)


class _It(asynq.BatchItemBase):
    def __init__(self, v):
        if _B.cur[0] is None or _B.cur[0].is_flushed():
            _B.cur[0] = _B()
        asynq.BatchItemBase.__init__(self, _B.cur[0])
        self.v = v


class U(object):
    """payload that cannot be ordered or compared: only keys may be compared"""
    __slots__ = ("v",)

    def __init__(self, v):
        self.v = v

    def __repr__(self):
        return "U(%r)" % (self.v,)


def f_helper(h, n, itk, form, unord, blocks, rev, m, x0, x1, x2, x3):
    hh, nn, ik, fm = conc(h, len(HELPERS)), conc(n, 5), conc(itk, 3), conc(form, 2)
    uo, bl, rv = concb(unord), concb(blocks), concb(rev)
    rec.clear_fail()
    if not (1 <= m <= 3):
        return True
    mm = conc(m - 1, 3) + 1
    xs = [x0, x1, x2, x3][:nn]
    keyless = hh >= 7
    if keyless and uo:
        return True          # comparing unorderable payloads is a TypeError in the built-ins as well
    prog.reset_globals()
    _B.cur[0] = None
    _B.nflush[0] = 0
    elems = [U(x) for x in xs] if uo else list(xs)

    def val(e):
        return e.v if uo else e

    def key_sync(e):
        return val(e) % mm

    @A()
    def key_async(e):
        if bl:
            r = yield _It(val(e) % mm)
            return r
        return val(e) % mm

    def pred_sync(e):
        return val(e) % mm == 0

    @A()
    def pred_async(e):
        if bl:
            r = yield _It(val(e) % mm)
            return r == 0
        return val(e) % mm == 0

    def mk_iter():
        if ik == 0:
            return list(elems)
        if ik == 1:
            return tuple(elems)
        return iter(list(elems))

    def run(thunk):
        try:
            return ("v", thunk())
        except Exception as e:
            prog.reraise_control(e)
            return ("e", type(e).__name__)

    name = HELPERS[hh]
    try:
        if name == "amap":
            got = run(lambda: amap(key_async, mk_iter()))
            exp = run(lambda: list(map(key_sync, mk_iter())))
        elif name == "afilter":
            got = run(lambda: afilter(pred_async, mk_iter()))
            exp = run(lambda: list(filter(pred_sync, mk_iter())))
        elif name == "afilter(None)":
            got = run(lambda: afilter(None, mk_iter()))
            exp = run(lambda: list(filter(None, mk_iter())))
        elif name == "afilterfalse":
            got = run(lambda: afilterfalse(pred_async, mk_iter()))
            exp = run(lambda: list(itertools.filterfalse(pred_sync, mk_iter())))
        elif name == "asorted":
            got = run(lambda: asorted(mk_iter(), key=key_async, reverse=rv))
            exp = run(lambda: sorted(mk_iter(), key=key_sync, reverse=rv))
        elif name == "asorted(no key)":
            got = run(lambda: asorted(mk_iter(), reverse=rv))
            exp = run(lambda: sorted(mk_iter(), reverse=rv))
        elif name in ("amax", "amin", "amax(no key)", "amin(no key)"):
            af, sf = (amax, max) if name.startswith("amax") else (amin, min)
            if name.endswith("(no key)"):
                if fm == 0:
                    got = run(lambda: af(mk_iter()))
                    exp = run(lambda: sf(mk_iter()))
                else:
                    got = run(lambda: af(*elems))
                    exp = run(lambda: sf(*elems))
                    if nn == 1:
                        return True      # max(5) means "iterate over 5": not a sequence call form
            else:
                if fm == 0:
                    got = run(lambda: af(mk_iter(), key=key_async))
                    exp = run(lambda: sf(mk_iter(), key=key_sync))
                else:
                    if nn == 1:
                        return True
                    got = run(lambda: af(*elems, key=key_async))
                    exp = run(lambda: sf(*elems, key=key_sync))
        elif name == "asift":
            got = run(lambda: asift(pred_async, mk_iter()))
            src = list(elems)
            exp = ("v", ([e for e in src if pred_sync(e)], [e for e in src if not pred_sync(e)]))
        else:
            raise AssertionError(name)
        desc = "%s on %s of %d %s elements (key/pred %s), call form %d, reverse=%s" % (
            name, ["list", "tuple", "one-shot iterator"][ik], nn, "unorderable" if uo else "int",
            "blocks on a batch" if bl else "immediate", fm, rv)
        if got[0] != exp[0]:
            return rec.fail("%s: helper gave %r, built-in gives %r" % (desc, got, exp))
        if got[0] == "e":
            if got[1] != exp[1]:
                return rec.fail("%s: helper raised %s, built-in raises %s" % (desc, got[1], exp[1]))
        else:
            if not same(got[1], exp[1]):
                return rec.fail("%s: helper gave %r, built-in gives %r" % (desc, got, exp))
            # all per-element calls are issued together: one flush when the key blocks
            if bl and not keyless and nn > 0 and name != "afilter(None)":
                if _B.nflush[0] != 1:
                    return rec.fail("%s: %d flushes for one helper call" % (desc, _B.nflush[0]))
        rec.wit("paths")
        rec.done(("c14", hh, nn, ik, fm, uo, bl, rv), True)
        return True
    finally:
        prog.reset_globals()


def same(a, b):
    """equality that uses identity for unorderable payloads"""
    if isinstance(a, U) or isinstance(b, U):
        return a is b
    if isinstance(a, (list, tuple)) and isinstance(b, (list, tuple)):
        return type(a) is type(b) and len(a) == len(b) and all(same(x, y) for x, y in zip(a, b))
    return bool(a == b)


def f_badargs(which):
    w = conc(which, 6)
    rec.clear_fail()

    def run(thunk):
        try:
            return ("v", thunk())
        except Exception as e:
            prog.reraise_control(e)
            return ("e", type(e).__name__)

    @A()
    def k(x):
        return x
    pairs = [
        (lambda: amax(), lambda: max()),
        (lambda: amin(), lambda: min()),
        (lambda: amax([1, 2], foo=3), lambda: max([1, 2], foo=3)),
        (lambda: amin([1, 2], foo=3), lambda: min([1, 2], foo=3)),
        (lambda: amax([], key=k), lambda: max([], key=lambda x: x)),
        (lambda: amin([], key=k), lambda: min([], key=lambda x: x)),
    ]
    g, e = run(pairs[w][0]), run(pairs[w][1])
    if g != e:
        return rec.fail("bad-input case %d: helper %r, built-in %r" % (w, g, e))
    rec.wit("paths")
    rec.done(("c14bad", w), True)
    return True


def f_aretry(k, mt, unlisted, method, two, v):
    kk, mm = conc(k, 5), 1 + conc(mt, 4)
    ul, me, tw = concb(unlisted), concb(method), concb(two)
    rec.clear_fail()
    prog.reset_globals()
    count = [0]

    class Listed(Exception):
        pass

    class Listed2(Exception):
        pass

    class Other(Exception):
        pass

    excs = (Listed, Listed2) if tw else Listed

    def body(x):
        count[0] += 1
        if count[0] <= kk:
            if ul and count[0] == 1:
                raise Other("unlisted")
            raise (Listed2 if (tw and count[0] % 2 == 0) else Listed)("listed %d" % count[0])
        return ("ok", x, count[0])

    try:
        if me:
            class K(object):
                @aretry(excs, max_tries=mm, sleep=0)
                @A()
                def m(self, x):
                    return body(x)
            fn = K().m
        else:
            @aretry(excs, max_tries=mm, sleep=0)
            @A()
            def fn(x):
                return body(x)
        try:
            got = ("v", fn(v))
        except Exception as e:
            prog.reraise_control(e)
            got = ("e", type(e).__name__)
        desc = "aretry(max_tries=%d), first %d attempts raise%s" % (mm, kk, " (first one unlisted)" if ul and kk else "")
        if ul and kk >= 1:
            if count[0] != 1 or got != ("e", "Other"):
                return rec.fail("%s: unlisted exception must propagate immediately; body ran %d times, got %r" % (desc, count[0], got))
        else:
            want = min(kk + 1, mm)
            if count[0] != want:
                return rec.fail("%s: body ran %d times, expected %d" % (desc, count[0], want))
            if kk < mm:
                if got != ("v", ("ok", v, kk + 1)):
                    return rec.fail("%s: returned %r" % (desc, got))
            elif got[0] != "e" or got[1] not in ("Listed", "Listed2"):
                return rec.fail("%s: expected the listed exception to be re-raised, got %r" % (desc, got))
        rec.wit("paths")
        rec.done(("aretry", kk, mm, ul, me, tw), True)
        return True
    finally:
        prog.reset_globals()


def f_badelems(h, itk, blocks, b0, b1, b2, v):
    """Elements on which the key / predicate fails, with different exception types (0 fine, 1 KeyError, 2 TypeError):
    the helper raises what the built-in raises (the first bad element in input order decides)."""
    hh, ik, bl = conc(h, 7), conc(itk, 3), concb(blocks)
    bad = [conc(b0, 3), conc(b1, 3), conc(b2, 3)]
    rec.clear_fail()
    prog.reset_globals()
    _B.cur[0] = None
    _B.nflush[0] = 0
    elems = [(i, v + i) for i in range(3)]

    def check_elem(e):
        if bad[e[0]] == 1:
            raise KeyError(e[0])
        if bad[e[0]] == 2:
            raise TypeError(e[0])

    def key_sync(e):
        check_elem(e)
        return e[1]

    @A()
    def key_async(e):
        if bl:
            yield _It(e[0])
        check_elem(e)
        return e[1]

    def pred_sync(e):
        check_elem(e)
        return e[1] % 2 == 0

    @A()
    def pred_async(e):
        if bl:
            yield _It(e[0])
        check_elem(e)
        return e[1] % 2 == 0

    def mk_iter():
        return [list(elems), tuple(elems), iter(list(elems))][ik]

    def run(thunk):
        try:
            return ("v", thunk())
        except Exception as e:
            prog.reraise_control(e)
            return ("e", type(e).__name__)
    name = HELPERS[hh]
    try:
        if name == "amap":
            got, exp = run(lambda: amap(key_async, mk_iter())), run(lambda: list(map(key_sync, mk_iter())))
        elif name == "afilter":
            got, exp = run(lambda: afilter(pred_async, mk_iter())), run(lambda: list(filter(pred_sync, mk_iter())))
        elif name == "afilterfalse":
            got = run(lambda: afilterfalse(pred_async, mk_iter()))
            exp = run(lambda: list(itertools.filterfalse(pred_sync, mk_iter())))
        elif name == "asorted":
            got, exp = run(lambda: asorted(mk_iter(), key=key_async)), run(lambda: sorted(mk_iter(), key=key_sync))
        elif name == "amax":
            got, exp = run(lambda: amax(mk_iter(), key=key_async)), run(lambda: max(mk_iter(), key=key_sync))
        elif name == "amin":
            got, exp = run(lambda: amin(mk_iter(), key=key_async)), run(lambda: min(mk_iter(), key=key_sync))
        elif name == "asift":
            got = run(lambda: asift(pred_async, mk_iter()))
            exp = run(lambda: ([e for e in elems if pred_sync(e)], [e for e in elems if not pred_sync(e)]))
        else:
            return True
        desc = "%s on 3 elements whose key/predicate outcome is %s (%s)" % (
            name, [["fine", "KeyError", "TypeError"][b] for b in bad], "blocks on a batch" if bl else "immediate")
        if got[0] != exp[0] or (got[0] == "e" and got[1] != exp[1]):
            return rec.fail("%s: helper gave %r, built-in gives %r" % (desc, got, exp))
        if got[0] == "v" and not same(got[1], exp[1]):
            return rec.fail("%s: helper gave %r, built-in gives %r" % (desc, got, exp))
        rec.wit("paths")
        if got[0] == "e":
            rec.wit("paths_raising")
        rec.done(("c14be", hh, ik, bl, tuple(bad)), True)
        return True
    finally:
        prog.reset_globals()


def conds(tier):
    q = tier == "quick"
    out = []
    out.append(Cond("badelems", f_badelems, [I("h", 0, 6), I("itk", 0, 2), B("blocks"), I("b0", 0, 2), I("b1", 0, 2),
                                             I("b2", 0, 2), I("v")], pin=1, builds=("C", "P"), budget=100,
                    family="elements on which the key/predicate raises, with different exception types: same "
                           "exception type as the built-in", encodes=ENC))
    out.append(Cond("helpers", f_helper,
                    [I("h", 0, len(HELPERS) - 1), I("n", 0, 3 if q else 4), I("itk", 0, 2), I("form", 0, 1), B("unord"),
                     B("blocks"), B("rev"), I("m", 1, 2 if q else 3), I("x0"), I("x1"), I("x2"), I("x3")],
                    pin=2, builds=("C",), budget=300 if q else 1800,
                    family="helper x length x iterable kind x call form x payload kind, symbolic elements", encodes=ENC))
    out.append(Cond("badargs", f_badargs, [I("which", 0, 5)], pin=0, builds=("C",), budget=60,
                    family="zero-argument / unknown keyword / empty input", encodes=ENC))
    out.append(Cond("aretry", f_aretry, [I("k", 0, 4), I("mt", 0, 3), B("unlisted"), B("method"), B("two"), I("v")],
                    pin=1, builds=("C",), budget=100, family="aretry: all (k, max_tries) in [0,4]x[1,4]", encodes=ENC))
    return out
