"""C18: diagnostics are faithful and total: glued tracebacks, asynq stack, filter_traceback, str/repr/dump."""
import ast
import contextlib
import inspect
import io

import asynq
from asynq import asynq as A
from asynq import debug as D
from asynq import futures as F
from asynq import batching as BT
from asynq import scheduler as S
from asynq.generator import async_generator, Value, take_first
from vlib.spec import Cond, I, B
from vlib import rec
from harness.fam import conc, concb
from harness import prog

ENC = ["asynq/debug.py: filter_traceback, format_error, extract_tb, format_tb, format_asynq_stack, dump, str, repr",
       "asynq/async_task.py: AsyncTask._accept_error (traceback gluing), _continue_on_generator (throw with stored "
       "traceback), traceback, _traceback_line, __str__, dump",
       "asynq/futures.py: FutureBase.__repr__/dump; asynq/batching.py: BatchBase.__str__/dump, to_str; "
       "asynq/scheduler.py: TaskScheduler.__str__/dump; asynq/generator.py: _AsyncGenerator.__repr__; "
       "asynq/scoped_value.py: __str__/__repr__"]


# ---------------------------------------------------------------------------------------
# (a) filter_traceback: patterns are read out of the *current* debug.py

def read_patterns():
    src = inspect.getsource(D.filter_traceback)
    tree = ast.parse(src)
    pats = {}
    order = []
    for node in ast.walk(tree):
        if isinstance(node, ast.Assign) and len(node.targets) == 1 and isinstance(node.targets[0], ast.Name):
            name = node.targets[0].id
            if name == "REPLACEMENTS":
                order = [e.id for e in node.value.elts]
            elif isinstance(node.value, ast.Tuple) and len(node.value.elts) == 2 and isinstance(node.value.elts[0], ast.List):
                try:
                    pats[name] = (ast.literal_eval(node.value.elts[0]), ast.literal_eval(node.value.elts[1]))
                except Exception:
                    pass
    return [pats[n] for n in order]


PATTERNS = read_patterns()
FOREIGN = ['  File "app/views.py", line 10, in handler\n', "    return compute(x)\n",
           "ValueError: value out of range, reraise later\n"]


def line_for(token, i):
    return '  File "lib/mod%d.py", line %d, in %s\n' % (i, 10 + i, token)


def ref_filter(lines):
    """Independent re-implementation of the documented behaviour: scan left to right; at each position the
    first pattern whose complete run starts there is collapsed into its marker; otherwise the line is kept."""
    out = []
    i = 0
    n = len(lines)
    while i < n:
        hit = None
        for toks, marker in PATTERNS:
            if i + len(toks) <= n and all(toks[j] in lines[i + j] for j in range(len(toks))):
                hit = (len(toks), marker)
                break
        if hit:
            out.append("  " + hit[1] + "\n")
            i += hit[0]
        else:
            out.append(lines[i])
            i += 1
    return out


def build_run(p, cut, cpos, csym):
    toks, marker = PATTERNS[p]
    n = min(cut, len(toks))
    lines = [line_for(toks[j], j) for j in range(n)]
    if cpos < n:
        # corrupt one line of the run
        if csym == 0:
            lines[cpos] = FOREIGN[0]
        elif csym == 1:
            lines[cpos] = line_for("value", 99)             # proper substring of several tokens
        elif csym == 2:
            lines[cpos] = line_for("reraise", 98)
        elif csym == 3:
            nxt = toks[(cpos + 1) % len(toks)]
            lines[cpos] = line_for(nxt, 97)
        else:
            other = PATTERNS[(p + 1) % len(PATTERNS)][0][0]
            lines[cpos] = line_for(other, 96)
    return lines


def f_filter(p1, cut1, cpos, csym, gap, p2, cut2, tail, lead):
    pp1, pp2 = conc(p1, len(PATTERNS)), conc(p2, len(PATTERNS))
    maxlen = max(len(t) for t, _ in PATTERNS)
    c1 = conc(cut1, maxlen + 1)
    cp = conc(cpos, maxlen + 1)           # == maxlen -> no corruption
    cs = conc(csym, 5)
    c2 = [0, len(PATTERNS[pp2][0]), len(PATTERNS[pp2][0]) - 1][conc(cut2, 3)]
    rec.clear_fail()
    lines = []
    if concb(lead):
        lines.append(FOREIGN[1])
    lines += build_run(pp1, c1, cp, cs)
    lines += FOREIGN[:conc(gap, 3)]
    lines += build_run(pp2, c2, 99, 0)
    if concb(tail):
        lines.append(FOREIGN[2])
    inp = list(lines)
    got = D.filter_traceback(lines)
    exp = ref_filter(inp)
    if lines != inp:
        return rec.fail("filter_traceback modified its input list")
    if got != exp:
        return rec.fail("filter_traceback(%r) = %r, expected %r" % (inp, got, exp))
    rec.wit("paths")
    if any("___asynq" in x for x in got):
        rec.wit("paths_with_collapsed_run")
    rec.done(("filter", pp1, c1, cp, cs, conc(gap, 3), pp2, c2), True)
    return True


def f_filter_free(n, *sel):
    """free-form sequences over a small alphabet (first/second/last token of a pattern, a substring token, foreign)"""
    nn = conc(n, len(sel) + 1)
    toks = PATTERNS[0][0] + PATTERNS[2][0][:1]
    alpha = [line_for(t, i) for i, t in enumerate(dict.fromkeys(toks))] + [FOREIGN[0], line_for("value", 9)]
    lines = [alpha[conc(sel[i], len(alpha))] for i in range(nn)]
    for i in range(nn, len(sel)):
        if sel[i] != 0:
            return True
    rec.clear_fail()
    got = D.filter_traceback(list(lines))
    exp = ref_filter(lines)
    if got != exp:
        return rec.fail("filter_traceback(%r) = %r, expected %r" % (lines, got, exp))
    rec.wit("paths")
    rec.done(("filterfree", tuple(lines)), True)
    return True


# ---------------------------------------------------------------------------------------
# (b) glued tracebacks and format_asynq_stack

class _B(asynq.BatchBase):
    cur = [None]

    def _try_switch_active_batch(self):
        if _B.cur[0] is self:
            _B.cur[0] = _B()

    def _flush(self):
        for it in self.items:
            it.set_value(it.v)


class _It(asynq.BatchItemBase):
    def __init__(self, v):
        if _B.cur[0] is None or _B.cur[0].is_flushed():
            _B.cur[0] = _B()
        asynq.BatchItemBase.__init__(self, _B.cur[0])
        self.v = v


class Spec(object):
    def __init__(self, raise_at, catch_at, blocks, stack_out):
        self.raise_at = raise_at
        self.catch_at = catch_at
        self.blocks = blocks
        self.stack_out = stack_out

    def __repr__(self):
        return "<Spec>"


def _level(n, spec, nxt):
    if spec.blocks:
        yield _It(n)
    if n == 0:
        spec.stack_out.append(D.format_asynq_stack())
    if n == spec.raise_at:
        raise prog.E(("level", n))
    if n == 0:
        return 0
    if n == spec.catch_at:
        try:
            r = yield nxt.asynq(spec)
        except prog.E:
            raise
        return r + 1
    r = yield nxt.asynq(spec)
    return r + 1


@A()
def lvl0(spec):
    return (yield from _level(0, spec, None))


@A()
def lvl1(spec):
    return (yield from _level(1, spec, lvl0))


@A()
def lvl2(spec):
    return (yield from _level(2, spec, lvl1))


@A()
def lvl3(spec):
    return (yield from _level(3, spec, lvl2))


@A()
def lvl4(spec):
    return (yield from _level(4, spec, lvl3))


@A()
def lvl5(spec):
    return (yield from _level(5, spec, lvl4))


@A()
def lvl6(spec):
    return (yield from _level(6, spec, lvl5))


LEVELS = [lvl0, lvl1, lvl2, lvl3, lvl4, lvl5, lvl6]

# the same chain with level 2 defined through exec(): its source cannot be retrieved
_ns = {"A": A, "_level": _level, "lvl1": lvl1}
exec("@A()\ndef lvl2(spec):\n    return (yield from _level(2, spec, lvl1))\n", _ns)
lvl2x = _ns["lvl2"]


@A()
def lvl3x(spec):
    return (yield from _level(3, spec, lvl2x))


@A()
def lvl4x(spec):
    return (yield from _level(4, spec, lvl3x))


LEVELS_X = [lvl0, lvl1, lvl2x, lvl3x, lvl4x]


class _FailingResume(asynq.AsyncContext):
    def __init__(self):
        self.n = 0

    def resume(self):
        self.n += 1
        if self.n == 2:
            raise prog.E("resume")

    def pause(self):
        pass


@A()
def _prelude_task():
    with _FailingResume():
        yield _It(0)
    return 0


def f_glue(d, raise_at, catch_at, blocks, nosrc=False, prelude=False):
    dd = conc(d, 7)
    pl = concb(prelude)
    use_x = concb(nosrc) and 2 <= dd <= 4
    ra = conc(raise_at, 8) - 1           # -1: nobody raises
    ca = conc(catch_at, 8) - 1
    bl = concb(blocks)
    rec.clear_fail()
    if ra > dd or ca > dd:
        return True
    prog.reset_globals()
    _B.cur[0] = None
    stack_out = []
    spec = Spec(ra, ca, bl, stack_out)
    try:
        if pl:
            # an earlier computation on this thread failed because a context could not be resumed after a flush
            try:
                _prelude_task()
                return rec.fail("prelude: a failing context resume did not fail the task")
            except prog.E:
                pass
            if D.format_asynq_stack() is not None:
                return rec.fail("format_asynq_stack() outside any task is not None after a computation failed in a "
                                "context resume")
        try:
            got = ("v", (LEVELS_X if use_x else LEVELS)[dd](spec))
        except prog.E as e:
            got = ("e", e)
        except Exception as e:
            prog.reraise_control(e)
            return rec.fail("chain of %d levels%s: %r escaped" % (dd + 1, " (level 2 defined through exec)" if use_x else "", e))
        desc = "chain of %d task levels%s, level %d raises, level %d re-raises, %s" % (
            dd + 1, " (level 2 defined through exec)" if use_x else "", ra, ca,
            "blocking on a batch" if bl else "no batch")
        if ra < 0:
            if got != ("v", dd):
                return rec.fail("%s: result %r" % (desc, got))
        else:
            if got[0] != "e":
                return rec.fail("%s: no exception reached the caller" % desc)
            # one frame per task level, in call order, ending at the raising frame
            names = []
            tb = got[1].__traceback__
            last_line = None
            while tb is not None:
                nm = tb.tb_frame.f_code.co_name
                if nm.startswith("lvl"):
                    nm = nm.rstrip("x")
                    if not names or names[-1] != nm:
                        names.append(nm)
                if nm == "_level":
                    last_line = tb.tb_frame.f_locals.get("n")
                tb = tb.tb_next
            want = ["lvl%d" % i for i in range(dd, ra - 1, -1)]
            if names != want:
                return rec.fail("%s: task-level frames in the traceback are %r, expected %r" % (desc, names, want))
            if last_line != ra:
                return rec.fail("%s: traceback does not end at the raising frame (ends in level %r)" % (desc, last_line))
            txt = D.format_error(got[1])
            if "E" not in txt:
                return rec.fail("%s: format_error lost the exception" % desc)
        if ra < 0 or ra == 0:
            if len(stack_out) != 1:
                return rec.fail("%s: leaf did not run" % desc)
            st = stack_out[0]
            if st is None or len(st) != dd + 1:
                return rec.fail("%s: format_asynq_stack() in the leaf returned %r entries, expected %d" % (
                    desc, None if st is None else len(st), dd + 1))
            for i, entry in enumerate(st):
                if ("lvl%d" % (dd - i)) not in entry and not (use_x and dd - i == 2 and "lvl2" in entry):
                    return rec.fail("%s: format_asynq_stack() entry %d is %r, expected the level-%d task" % (
                        desc, i, entry[:120], dd - i))
        if D.format_asynq_stack() is not None:
            return rec.fail("format_asynq_stack() outside any task is not None")
        rec.wit("paths")
        rec.done(("glue", dd, ra, ca, bl, pl), True)
        return True
    finally:
        prog.reset_globals()


@A()
def ho_leaf(out, blocks):
    out.append(D.format_asynq_stack())
    if blocks:
        yield _It(1)
        out.append(D.format_asynq_stack())
    return 1


@A()
def ho_maker(out, blocks, depth):
    # creates the task and hands it over unawaited: the created task outlives its creator
    if depth > 0:
        box = yield ho_maker.asynq(out, blocks, depth - 1)
        return box
    t = ho_leaf.asynq(out, blocks)
    return [t]


@A()
def ho_root(out, blocks, depth, via):
    box = yield ho_maker.asynq(out, blocks, depth)
    if via == 0:
        r = yield box[0]
    elif via == 1:
        r = box[0].value()
    else:
        r = yield ho_waiter.asynq(box[0])
    return r


@A()
def ho_waiter(t):
    return (yield t)


def f_handover(blocks, depth, via):
    """format_asynq_stack() inside a task whose creator (and the creator's creator) already finished"""
    bl, dp, vv = concb(blocks), conc(depth, 3), conc(via, 3)
    rec.clear_fail()
    prog.reset_globals()
    _B.cur[0] = None
    out = []
    try:
        try:
            ho_root(out, bl, dp, vv)
        except Exception as e:
            prog.reraise_control(e)
            return rec.fail("hand-over chain (depth %d, via %d): %r escaped" % (dp, vv, e))
        want = ["ho_root"] + ["ho_maker"] * (dp + 1) + ["ho_leaf"]
        for st in out:
            if st is None or len(st) != len(want):
                return rec.fail("format_asynq_stack() in a task that outlived its creators lists %r entries, "
                                "expected %d (the task and each task that created it)" % (None if st is None else len(st), len(want)))
            for entry, name in zip(st, want):
                if name not in entry:
                    return rec.fail("format_asynq_stack() entry %r does not name %s" % (entry[:100], name))
        if len(out) != (2 if bl else 1):
            return rec.fail("leaf did not run as expected")
        rec.wit("paths")
        rec.done(("handover", bl, dp, vv), True)
        return True
    finally:
        prog.reset_globals()


# ---------------------------------------------------------------------------------------
# (c) totality of str / repr / dump / format_error

def _objects():
    """(name, thunk producing the object in the named state)"""
    out = []

    def add(name, th):
        out.append((name, th))

    def fut_states(name, mk):
        add(name + " fresh", mk)

        def comp():
            f = mk()
            try:
                f.value()
            except Exception:
                pass
            return f
        add(name + " computed", comp)

    fut_states("Future(ok)", lambda: F.Future(lambda: 5))
    fut_states("Future(raising)", lambda: F.Future(lambda: 1 // 0))
    add("Future holding itself", lambda: _selfref())
    add("ConstFuture", lambda: F.ConstFuture(3))
    add("ErrorFuture", lambda: F.ErrorFuture(ValueError("x")))
    add("none_future", lambda: F.none_future)

    @A()
    def t_ok(x):
        r = yield _It(x)
        return r

    @A()
    def t_bad(x):
        yield _It(x)
        raise ValueError("bad")

    @A()
    def t_plain(x):
        return x

    add("task before start", lambda: t_ok.asynq(1))
    add("plain task before start", lambda: t_plain.asynq(1))

    add("task computed", lambda: _done(t_ok.asynq(3)))
    add("task failed", lambda: _done(t_bad.asynq(4)))
    add("task set_value before start", lambda: _preset(t_ok.asynq(5)))
    add("task with unrepresentable args", lambda: t_plain.asynq(_BadRepr()))

    add("batch pending empty", lambda: _newbatch()[0])
    add("batch pending with items", lambda: _newbatch(2)[0])
    add("batch flushed", lambda: _flushed(_newbatch(2)[0]))
    add("batch cancelled", lambda: _cancelled(_newbatch(2)[0]))
    add("item pending", lambda: _newbatch(1)[1][0])
    add("item computed", lambda: _flushed_item())
    add("item of cancelled batch", lambda: _cancelled_item())
    add("DebugBatch pending", lambda: BT.DebugBatchItem("n", 1).batch)
    add("DebugBatchItem", lambda: BT.DebugBatchItem("n", 1))
    add("scheduler idle", lambda: S.get_scheduler())
    add("TaskScheduler fresh", lambda: S.TaskScheduler())
    add("AsyncScopedValue", lambda: asynq.AsyncScopedValue(4))
    add("scoped override ctx", lambda: asynq.AsyncScopedValue(4).override(5))
    add("async_override ctx", lambda: asynq.async_override(_Obj(), "x", 5))

    @async_generator()
    def gen():
        x = yield _It(1)
        yield Value(x)
        yield Value(2)
    add("async generator fresh", lambda: gen())
    add("async generator advanced", lambda: _adv(gen(), 1))
    add("async generator stopped", lambda: _adv(gen(), 5))
    add("Value", lambda: Value(3))
    return out


class _Obj(object):
    x = 1


class _BadRepr(object):
    def __repr__(self):
        raise RuntimeError("no repr")


def _selfref():
    f = F.Future(lambda: None)
    f.set_value(f)
    return f


def _done(t):
    try:
        t.value()
    except Exception:
        pass
    return t


def _preset(t):
    t.set_value(9)
    return t


def _newbatch(n=0):
    _B.cur[0] = _B()
    b = _B.cur[0]
    items = [_It(i) for i in range(n)]
    return b, items


def _flushed(b):
    b.flush()
    return b


def _cancelled(b):
    b.cancel()
    return b


def _flushed_item():
    b, items = _newbatch(1)
    b.flush()
    return items[0]


def _cancelled_item():
    b, items = _newbatch(1)
    b.cancel(ValueError("c"))
    return items[0]


def _adv(g, n):
    take_first(g, n)
    return g


OBJECTS = None


def f_total(which, how):
    global OBJECTS
    rec.clear_fail()
    prog.reset_globals()
    _B.cur[0] = None
    if OBJECTS is None:
        OBJECTS = len(_objects())
    objs = _objects()
    w = conc(which, len(objs))
    h = conc(how, 5)
    name, th = objs[w]
    sink = io.StringIO()
    try:
        with contextlib.redirect_stdout(sink), contextlib.redirect_stderr(sink):
            o = th()
            try:
                if h == 0:
                    s = str(o)
                    if not isinstance(s, str):
                        return rec.fail("str(%s) is not a string" % name)
                elif h == 1:
                    s = repr(o)
                    if not isinstance(s, str):
                        return rec.fail("repr(%s) is not a string" % name)
                elif h == 2:
                    if hasattr(o, "dump"):
                        o.dump()
                        o.dump(3)
                elif h == 3:
                    D.str(o)
                    D.repr(o)
                else:
                    D.dump(o) if hasattr(o, "dump") else None
            except Exception as e:
                prog.reraise_control(e)
                return rec.fail("%s of %s raised %r" % (["str", "repr", "dump", "debug.str/repr", "debug.dump"][h], name, e))
        rec.wit("paths")
        rec.done(("total", w, h), True)
        return True
    finally:
        prog.reset_globals()


def f_midrun(how):
    """str/repr/dump of scheduler, tasks, batches *while a computation is running* (inside a flush body and
    inside a task step)."""
    rec.clear_fail()
    prog.reset_globals()
    h = conc(how, 4)
    problems = []
    sink = io.StringIO()

    def probe(where, objs):
        for o in objs:
            try:
                with contextlib.redirect_stdout(sink), contextlib.redirect_stderr(sink):
                    if h == 0:
                        str(o)
                    elif h == 1:
                        repr(o)
                    elif h == 2:
                        if hasattr(o, "dump"):
                            o.dump()
                    else:
                        D.str(o)
                        D.repr(o)
            except Exception as e:
                prog.reraise_control(e)
                problems.append("%s: %s raised %r" % (where, type(o).__name__, e))

    class PB(asynq.BatchBase):
        cur = [None]

        def _try_switch_active_batch(self):
            if PB.cur[0] is self:
                PB.cur[0] = PB()

        def _flush(self):
            s = S.get_scheduler()
            probe("inside a flush body", [s, self] + list(self.items) + list(tasks))
            for it in self.items:
                it.set_value(1)

    class PI(asynq.BatchItemBase):
        def __init__(self):
            if PB.cur[0] is None or PB.cur[0].is_flushed():
                PB.cur[0] = PB()
            asynq.BatchItemBase.__init__(self, PB.cur[0])

    tasks = []

    @A()
    def child(n):
        probe("inside a task step", [S.get_scheduler(), asynq.get_active_task()] + list(tasks))
        x = yield PI()
        if n == 1:
            raise ValueError("child fails")
        return x

    @A()
    def root():
        ts = [child.asynq(0), child.asynq(1), child.asynq(2)]
        tasks.extend(ts)

        def provider():
            probe("inside the provider of a lazily computed Future", [S.get_scheduler()] + list(tasks))
            return 5
        try:
            # (the first child renders the scheduler while a batch item, a lazy Future and unstarted tasks are still
            #  waiting on the scheduler's stack behind it)
            yield [ts[0], PI(), F.Future(provider), ts[1], ts[2]]
        except ValueError:
            pass
        probe("after a failure was delivered", [S.get_scheduler(), asynq.get_active_task()] + list(tasks))
        return 1

    try:
        root()
        if problems:
            return rec.fail(problems[0])
        rec.wit("paths")
        rec.done(("midrun", h), True)
        return True
    finally:
        prog.reset_globals()


def f_format_error(which, with_tb, hl, flt):
    w = conc(which, 6)
    rec.clear_fail()
    old = (D._use_syntax_highlighting, D._should_filter_traceback)
    D.enable_traceback_syntax_highlight(concb(hl))
    D.enable_filter_traceback(concb(flt))
    try:
        tb = None
        if w == 0:
            err = ValueError("plain, never raised")
        elif w == 1:
            try:
                raise KeyError("raised")
            except KeyError as e:
                err = e
                tb = e.__traceback__
        elif w == 2:
            err = None
        elif w == 3:
            err = "not an exception"
        elif w == 4:
            @A()
            def bad():
                yield F.ConstFuture(1)
                raise ValueError("from task")
            try:
                bad()
            except ValueError as e:
                err = e
        else:
            class Odd(BaseException):
                pass
            err = Odd()
        try:
            r = D.format_error(err, tb=tb if concb(with_tb) else None)
        except Exception as e:
            prog.reraise_control(e)
            return rec.fail("format_error(case %d, tb=%s) raised %r" % (w, concb(with_tb), e))
        if err is None:
            if r is not None:
                return rec.fail("format_error(None) = %r" % (r,))
        elif not isinstance(r, str):
            return rec.fail("format_error returned %r" % (r,))
        elif isinstance(err, BaseException) and type(err).__name__ not in r:
            return rec.fail("format_error lost the exception type: %r" % (r,))
        rec.wit("paths")
        rec.done(("fe", w, concb(with_tb), concb(hl), concb(flt)), True)
        return True
    finally:
        D.enable_traceback_syntax_highlight(old[0])
        D.enable_filter_traceback(old[1])
        prog.reset_globals()


def conds(tier):
    q = tier == "quick"
    maxlen = max(len(t) for t, _ in PATTERNS)
    nobj = len(_objects())
    out = []
    out.append(Cond("filter", f_filter,
                    [I("p1", 0, len(PATTERNS) - 1), I("cut1", 0, maxlen), I("cpos", 0, maxlen), I("csym", 0, 4),
                     I("gap", 0, 2), I("p2", 0, len(PATTERNS) - 1), I("cut2", 0, 2), B("tail"), B("lead")],
                    pin=2, builds=("P",), budget=300,
                    family="filter_traceback: run(p1, truncated, one line corrupted) + gap + run(p2) over the token "
                           "alphabet read from the current debug.py", encodes=ENC,
                    extra_pre=[] if not q else ["gap <= 1 and (not tail or not lead)"]))
    nfree = 5 if q else 7
    out.append(Cond("filterfree", f_filter_free, [I("n", 0, nfree)] + [I("l%d" % i, 0, 5) for i in range(nfree)],
                    pin=2, builds=("P",), budget=300 if q else 1800,
                    family="filter_traceback: all sequences of <= %d lines over a 6-line alphabet" % nfree, encodes=ENC))
    out.append(Cond("glue", f_glue, [I("d", 0, 4 if q else 6), I("raise_at", 0, 7), I("catch_at", 0, 7), B("blocks"),
                                     B("nosrc"), B("prelude")],
                    pin=1, builds=("C", "P"), budget=200,
                    family="glued tracebacks / format_asynq_stack: depth x raise position x re-raise position, "
                           "optionally after an earlier computation failed in a context resume",
                    encodes=ENC))
    out.append(Cond("handover", f_handover, [B("blocks"), I("depth", 0, 2), I("via", 0, 2)], pin=0, builds=("C", "P"),
                    budget=100, family="format_asynq_stack in a task that outlives the tasks that created it (created, "
                    "returned unawaited, awaited later elsewhere)", encodes=ENC))
    out.append(Cond("total", f_total, [I("which", 0, nobj - 1), I("how", 0, 4)], pin=0, builds=("C", "P"), budget=200,
                    family="str/repr/dump totality: %d object states x 5 renderings" % nobj, encodes=ENC))
    out.append(Cond("midrun", f_midrun, [I("how", 0, 3)], pin=0, builds=("C", "P"), budget=100,
                    family="str/repr/dump of scheduler/tasks/batches mid-run", encodes=ENC))
    out.append(Cond("format_error", f_format_error, [I("which", 0, 5), B("with_tb"), B("hl"), B("flt")], pin=0,
                    builds=("C",), budget=100, family="format_error totality", encodes=ENC))
    return out
