"""C20 (a): debug / dump / profiling options never change behaviour - every path runs one program with the
default options and again with a symbolic option subset and compares everything a program can observe."""
import contextlib
import io

import asynq
from asynq import _debug as DBG
from asynq import debug as D
from asynq import scheduler as S
from asynq import profiler as PF
from vlib.spec import Cond, I, B
from vlib import rec
from harness import fam, core, ctx as ctxfam, prog
from harness.fam import conc, concb
from harness.prog import (RT, run_root, outcome_desc, reset_globals, detach, TaskD, SEQ, Y, TASK, ITEM, SYNC, TRY,
                          WITH, READ, CONST, LAZY, ERRFUT, task_fn)

ENC = ["asynq/_debug.py: DebugOptions", "asynq/debug.py: write, str, repr, dump, dump_error, dump_stack, format_error",
       "every `if _debug_options.X:` branch of asynq/scheduler.py, async_task.py, batching.py, futures.py, "
       "contexts.py (DUMP_*, COLLECT_PERF_STATS, KEEP_DEPENDENCIES, ENABLE_COMPLEX_ASSERTIONS, "
       "SCHEDULER_STATE_DUMP_INTERVAL=0 so time based dumps always fire)",
       "asynq/profiler.py: incr_counter, append, flush, reset"]

OPTS = ["DUMP_PRE_ERROR_STATE", "DUMP_EXCEPTIONS", "DUMP_SCHEDULE_TASK", "DUMP_CONTINUE_TASK", "DUMP_SCHEDULE_BATCH",
        "DUMP_FLUSH_BATCH", "DUMP_DEPENDENCIES", "DUMP_COMPUTED", "DUMP_NEW_TASKS", "DUMP_YIELD_RESULTS",
        "DUMP_QUEUED_RESULTS", "DUMP_CONTEXTS", "DUMP_SYNC", "DUMP_STACK", "DUMP_SCHEDULER_STATE", "DUMP_SYNC_CALLS",
        "COLLECT_PERF_STATS", "KEEP_DEPENDENCIES", "ENABLE_COMPLEX_ASSERTIONS"]
NOPT = len(OPTS)


class Sink(object):
    def __init__(self):
        self.n = 0

    def write(self, s):
        self.n += len(s)

    def flush(self):
        pass


@contextlib.contextmanager
def options(subset, allon):
    saved = {o: getattr(DBG.options, o) for o in OPTS}
    saved_iv = DBG.options.SCHEDULER_STATE_DUMP_INTERVAL
    so, se = D.stdout, D.stderr
    ss = (S.stdout, S.stderr) if hasattr(S, "stdout") else None
    sink = Sink()
    hl = D._use_syntax_highlighting
    ut = S.utime
    tick = [1000]

    def fake_utime():
        tick[0] += 7
        return tick[0]
    try:
        for i, o in enumerate(OPTS):
            on = allon or (i in subset)
            if o == "ENABLE_COMPLEX_ASSERTIONS":
                setattr(DBG.options, o, not on)
            else:
                setattr(DBG.options, o, bool(on))
        DBG.options.SCHEDULER_STATE_DUMP_INTERVAL = 0
        D.stdout = sink
        D.stderr = sink
        D.enable_traceback_syntax_highlight(False)
        S.utime = fake_utime
        with contextlib.redirect_stdout(sink), contextlib.redirect_stderr(sink):
            yield sink
    finally:
        for o, v in saved.items():
            setattr(DBG.options, o, v)
        DBG.options.SCHEDULER_STATE_DUMP_INTERVAL = saved_iv
        D.stdout, D.stderr = so, se
        D.enable_traceback_syntax_highlight(hl)
        S.utime = ut
        PF.reset()


def run_once(td, prio, ho, flush_hook_factory, sv_init, fresh=False):
    if not fresh:
        reset_globals()     # (a fresh thread needs no reset: it must work as it is)
    rt = RT(nkinds=2, prio=prio, hash_order=ho, sv_init=sv_init, monitors=("c08",))
    rt.flush_hook = flush_hook_factory() if flush_hook_factory else None
    try:
        real = run_root(rt, td, 0)
    finally:
        detach(rt)
    try:
        out = outcome_desc(real)
    except BaseException as e:
        prog.reraise_control(e)
        out = ("e", ("BASE", type(e).__name__))
    trace = {
        "outcome": out,
        "flushes": [(f["kind"], f["serial"], tuple(f["items"])) for f in rt.flush_log],
        "sched": [(k, getattr(b, "kind", None), getattr(b, "serial", None)) for k, b in rt.sched_events],
        "ctx": [(k, c) for k, c, _r, _t in rt.ctx_log],
        "reads": [(s, w) for s, w, _v in rt.reads],
        "readvals": [v for _s, _w, v in rt.reads],
        "problems": list(rt.problems),
        "stack": len(S.get_scheduler()._tasks),
        "active": S.get_active_task() is None,
    }
    reset_globals()
    return trace


SKELETONS = ["tree 2 kinds", "re-entry: sync call flushing the outer batch", "fault caught in mid task",
             "fault uncaught", "contexts + scoped value", "item.value() inside a task", "flush body re-enters",
             "lazy future + error future", "deep-ish chain with two kinds", "sync call nested twice",
             "sync call awaiting a task shared with a pending sibling (order 1)",
             "sync call awaiting a shared task (order 0, sibling blocks first)"]


def skeleton(sk, v, k0, k1):
    """-> (td, flush_hook_factory)"""
    hook = None
    if sk == 0:
        td = fam.tree([2, 1, 1], [k0, k1, 1 - k0], [v, v + 1, v + 2])
    elif sk == 1:
        # A holds a pending item of kind k0, then synchronously calls C which needs kind k0 as well:
        # the inner wait flushes the outer batch
        A = TaskD("A", SEQ(Y(0, ITEM(k0, v)), SYNC(0, TASK(fam.chain("C", 1, k0, v + 3))), Y(0, ITEM(k1, v + 1))))
        Bt = fam.chain("B", 2, k0, v + 5)
        td = TaskD("root", Y(4, TASK(A), TASK(Bt)))
    elif sk == 2:
        mid = TaskD("mid", SEQ(fam.guard(Y(4, ITEM(k0, v, "err"), ITEM(k1, v + 1)), 2), Y(0, ITEM(k1, v + 2))))
        td = TaskD("root", Y(4, TASK(mid), TASK(fam.chain("sib", 2, k1, v + 4))))
    elif sk == 3:
        mid = TaskD("mid", SEQ(Y(4, ITEM(k0, v, "unset"), TASK(fam.raising_task("r", 1, 1, k1, v))), Y(0, ITEM(k1, v + 2))))
        td = TaskD("root", Y(4, TASK(mid), TASK(fam.chain("sib", 2, k1, v + 4))))
    elif sk == 4:
        T0 = ctxfam.ctx_task("T0", [0, 1], (0, 2), 4, 0, k0, v + 9, v)
        T1 = ctxfam.ctx_task("T1", [0, 0], (0, 1), 0, 0, k1, v + 8, v + 100)
        td = TaskD("root", SEQ(READ(0), Y(4, TASK(T0), TASK(T1)), READ(0)))
    elif sk == 5:
        A = TaskD("A", SEQ(Y(0, ITEM(k0, v)), SYNC(2, ITEM(k1, v + 3)), Y(0, ITEM(k1, v + 1))))
        td = TaskD("root", Y(4, TASK(A), TASK(fam.chain("B", 2, k1, v + 5))))
    elif sk == 6:
        td = TaskD("root", Y(4, TASK(fam.chain("A", 2, k0, v)), TASK(fam.chain("B", 1, k1, v + 5))))
        hook = lambda: core._hook_sync(k0, 1 - k0, v)   # noqa: E731
    elif sk == 7:
        mid = TaskD("mid", SEQ(fam.guard(Y(3, LAZY(True, v), ERRFUT(1), ITEM(k0, v)), 2), Y(0, LAZY(False, 2))))
        td = TaskD("root", fam.guard(Y(4, TASK(mid), TASK(fam.chain("sib", 1, k1, v + 4))), 2))
    elif sk == 8:
        t = fam.chain_kinds("leaf", [k0, k1], v)
        for i in range(4):
            t = TaskD("n%d" % i, SEQ(Y(0, TASK(t)), Y(0, ITEM(k1 if i % 2 else k0, v + i))))
        td = t
    elif sk == 10:
        td = core.dagsync_prog(0, 1, k0, k1, 2, 0, 1, 0, v)
    elif sk == 11:
        td = core.dagsync_prog(k0, 2, k1, k0, 1, 1, 0, 3, v)
    else:
        inner = TaskD("I", SEQ(Y(0, ITEM(k1, v)), SYNC(1, TASK(fam.chain("J", 1, k0, v + 2)))))
        A = TaskD("A", SEQ(Y(0, ITEM(k0, v)), SYNC(0, TASK(inner)), Y(0, ITEM(k1, v + 1))))
        td = TaskD("root", Y(4, TASK(A), TASK(fam.chain("B", 2, k0, v + 5))))
    return td, hook


def on_fresh_thread(thunk):
    import threading
    box = {}

    def run():
        try:
            box["r"] = ("v", thunk())
        except BaseException as e:      # noqa
            box["r"] = ("e", e)
    th = threading.Thread(target=run)
    th.start()
    th.join(120)
    r = box.get("r", ("e", RuntimeError("thread did not finish")))
    if r[0] == "e":
        raise r[1]
    return r[1]


def f_opt(sk, o1, o2, allon, k0, k1, v, p0, p1, ho, thr=False):
    skv = conc(sk, len(SKELETONS))
    thrv = concb(thr)
    if thrv:
        # both runs happen on a fresh thread each (a thread that never used asynq or its profiler before);
        # CrossHair's symbolic state is per thread, so the values are made concrete first
        v, p0, p1 = conc(v, 2), conc(p0, 2), conc(p1, 2)
    a, b = conc(o1, NOPT + 1), conc(o2, NOPT + 1)
    al = concb(allon)
    rec.clear_fail()
    if b < a:
        return True             # unordered pair: each subset once (precondition)
    if al and (a != NOPT or b != NOPT):
        return True
    subset = set(x for x in (a, b) if x < NOPT)
    kk0, kk1 = conc(k0, 2), conc(k1, 2)
    td, hook = skeleton(skv, v, kk0, kk1)
    prio = [p0, p1]
    hov = conc(ho, 2)
    once = lambda: run_once(td, prio, hov, hook, (v + 1000, 0), thrv)      # noqa: E731
    runner = (lambda: on_fresh_thread(once)) if thrv else once
    base = runner()
    with options(subset, al) as sink:
        try:
            withopt = runner()
        except Exception as e:
            prog.reraise_control(e)
            return rec.fail("options %s on skeleton %r%s: harness-level exception %r" % (
                names(subset, al), SKELETONS[skv], " (on a fresh thread)" if thrv else "", e))
        out_n = sink.n
    for key in ("outcome", "flushes", "sched", "ctx", "reads", "readvals", "problems", "stack", "active"):
        if base[key] != withopt[key]:
            return rec.fail("options %s change the %s of skeleton %r: default %r, with options %r" % (
                names(subset, al), key, SKELETONS[skv], base[key], withopt[key]))
    rec.wit("paths")
    if out_n > 0:
        rec.wit("paths_with_diagnostic_output")
    if base["outcome"][0] == "e":
        rec.wit("root_failed")
    if thrv:
        rec.wit("paths_on_fresh_thread")
    rec.done(("c20", skv, tuple(sorted(subset)), al, kk0, kk1, thrv), True)
    return True


def names(subset, allon):
    if allon:
        return "ALL ON"
    return "{%s}" % ", ".join(OPTS[i] for i in sorted(subset))


def conds(tier):
    q = tier == "quick"
    nsk = len(SKELETONS)
    ps = [I("sk", 0, nsk - 1), I("o1", 0, NOPT), I("o2", 0, NOPT), B("allon"), I("k0", 0, 1), I("k1", 0, 1),
          I("v", 0, 1), I("p0", 0, 1), I("p1", 0, 1), I("ho", 0, 1), B("thr")]
    pre = ["o1 <= o2", "(not allon) or (o1 == %d and o2 == %d)" % (NOPT, NOPT), "(not thr) or o1 == o2"]
    if q:
        pre.append("ho == 0 and k1 == 1")
    return [Cond("opt", f_opt, ps, pin=2, builds=("C",), budget=400 if q else 2400,
                 family="F-OPT: %d program skeletons x option subsets of size <= 2 (+ all on), values/priorities in "
                        "{0,1} (they are formatted by the dumps); single-option subsets and all-on also with both runs on fresh threads" % nsk, encodes=ENC, extra_pre=pre,
                 shard_filter=None)]
