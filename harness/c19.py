"""C19: asynq.mock.patch replaces every calling convention and always restores."""
import asyncio
import logging

import asynq
from asynq import asynq as A
from unittest import mock as umock
from vlib.spec import Cond, I, B
from vlib import rec
from harness.fam import conc, concb
from harness import prog
from harness import c19_targets as TG

ENC = ["asynq/mock_.py: patch, patch.object, _make_patch_async, _PatchAsync.__enter__/copy, _AsynqWrapper, "
       "_AsyncioWrapper, _maybe_wrap_new", "unittest.mock._patch (executed as shipped)"]
TARGETS = ["module function", "instance method", "classmethod", "staticmethod", "plain attribute",
           "staticmethod reached through an instance", "classmethod reached through an instance",
           "instance method of an instance that is == a first, distinct instance used just before"]
REPL = ["default mock", "plain function", "bound method", "callable object", "new_callable", "non-callable",
        "staticmethod/classmethod object", "new_callable producing a non-callable",
        "callable that refuses new attributes (__slots__)"]
ACT = ["with", "decorator", "start/stop", "start/stopall", "with (patch by dotted name)"]


class Helper(object):
    def __init__(self, tag):
        self.tag = tag

    def bound(self, *a, **k):
        return ("bound", self.tag) + tuple(a) + tuple(sorted(k.items()))

    def __call__(self, *a, **k):
        return ("callable", self.tag) + tuple(a) + tuple(sorted(k.items()))


class SlotHelper(object):
    """a callable on which attributes such as .asynq cannot be set"""
    __slots__ = ("tag",)

    def __init__(self, tag):
        self.tag = tag

    def __call__(self, *a, **k):
        return ("callable", self.tag) + tuple(a) + tuple(sorted(k.items()))


def run_loop(coro):
    loop = asyncio.new_event_loop()
    try:
        return loop.run_until_complete(coro)
    finally:
        loop.close()


KEEP = []


def target_ref(tk):
    """(owner object, attribute name, dotted name, getter of the callable as a user references it,
    raw getter of what is stored)"""
    if tk == 0:
        return TG, "fn", "harness.c19_targets.fn", (lambda: TG.fn), (lambda: TG.__dict__["fn"])
    if tk == 1:
        return TG.Cls, "meth", "harness.c19_targets.Cls.meth", (lambda: TG.Cls(7).meth), (lambda: TG.Cls.__dict__["meth"])
    if tk == 2:
        return TG.Cls, "cmeth", "harness.c19_targets.Cls.cmeth", (lambda: TG.Cls.cmeth), (lambda: TG.Cls.__dict__["cmeth"])
    if tk == 3:
        return TG.Cls, "smeth", "harness.c19_targets.Cls.smeth", (lambda: TG.Cls.smeth), (lambda: TG.Cls.__dict__["smeth"])
    if tk == 5:
        return TG.Cls, "smeth", "harness.c19_targets.Cls.smeth", (lambda: TG.Cls(7).smeth), (lambda: TG.Cls.__dict__["smeth"])
    if tk == 6:
        return TG.Cls, "cmeth", "harness.c19_targets.Cls.cmeth", (lambda: TG.Cls(7).cmeth), (lambda: TG.Cls.__dict__["cmeth"])
    if tk == 7:
        def second_of_two_equal():
            first = TG.VCls(1)
            KEEP.append(first)
            first.meth          # the first instance is used (and stays alive) ...
            return TG.VCls(2).meth      # ... the callable under test belongs to the second one
        return TG.VCls, "meth", "harness.c19_targets.VCls.meth", second_of_two_equal, (lambda: TG.VCls.__dict__["meth"])
    return TG.Cls, "linked", "harness.c19_targets.Cls.linked", (lambda: TG.Cls.linked), (lambda: TG.Cls.__dict__["linked"])


def make_repl(rk, tag, rv):
    """-> (kwargs for patch, expected result builder(args) or None for mocks, the object)"""
    h = Helper(tag)
    if rk == 0:
        return {}, None, None
    if rk == 1:
        def plain(*a, **k):
            return ("plain", tag) + tuple(a) + tuple(sorted(k.items()))
        return {"new": plain}, "plain", plain
    if rk == 2:
        return {"new": h.bound}, "bound", h
    if rk == 3:
        return {"new": h}, "callable", h
    if rk == 4:
        return {"new_callable": lambda: Helper(tag)}, "callable", None
    if rk == 6:
        def sfn(*a, **k):
            return ("plain", tag) + tuple(a) + tuple(sorted(k.items()))
        return {"new": staticmethod(sfn)}, "plain", sfn
    if rk == 7:
        return {"new_callable": lambda: 12345}, "noncallable", None
    if rk == 8:
        sh = SlotHelper(tag)
        return {"new": sh}, "callable", sh
    return {"new": 12345 + 0 * rv}, "noncallable", None


def f_patch(tk, rk, act, exc, nest, x, rv):
    t, r, a = conc(tk, len(TARGETS)), conc(rk, len(REPL)), conc(act, len(ACT))
    ex, ns = concb(exc), conc(nest, 4)
    rec.clear_fail()
    if r == 6 and t not in (3, 5):
        return True         # a staticmethod object is a replacement for a static method
    prog.reset_globals()
    logging.disable(logging.CRITICAL)
    del KEEP[:]
    owner, attr, dotted, get_user, get_raw = target_ref(t)
    orig_raw = get_raw()
    desc = "patch %s with %s via %s%s%s" % (TARGETS[t], REPL[r], ACT[a], ", exit by exception" if ex else "",
                                           ["", ", nested second patch", ", sequential second patch", ", same patcher activated twice"][ns])
    try:
        kwargs, kind, obj = make_repl(r, "A", rv)

        def mkpatch(kw):
            if a == 4:
                return asynq.mock.patch(dotted, **kw)
            return asynq.mock.patch.object(owner, attr, **kw)

        def inside(tag, m):
            try:
                return inside0(tag, m)
            except Exception as e:
                prog.reraise_control(e)
                return "using the patched target raised %r" % (e,)

        def inside0(tag, m):
            """exercise all four conventions; returns problem string or None"""
            if t == 4 or r in (5, 7):
                # plain attribute / non-callable replacement is installed as is
                cur = getattr(owner, attr)
                if r in (5, 7) and cur != 12345:
                    return "non-callable replacement not installed as is (%r)" % (cur,)
                if r == 0 and not isinstance(cur, umock.NonCallableMock):
                    return "default mock not installed (%r)" % (cur,)
                return None
            fn = get_user()
            if r == 0:
                m.return_value = rv
            outs = []
            outs.append(("sync", fn(x, y=2)))
            outs.append(("asynq().value()", fn.asynq(x, y=2).value()))

            @A()
            def yielder():
                return (yield fn.asynq(x, y=2))
            outs.append(("yield", yielder()))
            outs.append(("asyncio", run_loop(fn.asyncio(x, y=2))))
            first = outs[0][1]
            for nm, o in outs:
                if o != first:
                    return "conventions disagree inside the patch: %r" % (outs,)
            if r == 0:
                if first != rv:
                    return "default mock returned %r, return_value is %r" % (first, rv)
                if m.call_count != 4:
                    return "default mock saw %d calls for 4 conventions" % m.call_count
                for c in m.call_args_list:
                    if c != umock.call(x, y=2):
                        return "default mock called with %r" % (c,)
                m.reset_mock()
            else:
                k = kind
                if first[0] != k or first[1] != tag:
                    return "replacement not reached: got %r" % (first,)
                # the given arguments arrive (a function replacement on a method also receives the instance/class)
                if x not in first or ("y", 2) not in first:
                    return "arguments did not reach the replacement: %r" % (first,)
                if t == 7 and r == 1 and getattr(first[2], "t", None) != 2:
                    return "the replacement received another (equal but distinct) instance as receiver: %r" % (first,)
            return None

        problem = [None]

        class Boom(Exception):
            pass

        def body(m):
            problem[0] = problem[0] or inside("A", m)
            if ns == 1:
                kw2, kind2, _ = make_repl(1, "B", rv)
                with mkpatch(kw2) as m2:
                    if t != 4:
                        f2 = get_user()
                        o = f2(x, y=2)
                        if o[0] != "plain" or o[1] != "B":
                            problem[0] = problem[0] or "nested patch not visible: %r" % (o,)
                        if f2.asynq(x, y=2).value() != o:
                            problem[0] = problem[0] or "nested patch: conventions disagree"
                # the outer replacement is back after the inner patch ends
                problem[0] = problem[0] or inside("A", m)
            if ex:
                raise Boom()

        p = mkpatch(kwargs)
        try:
            if a in (0, 4):
                with p as m:
                    body(m)
            elif a == 1:
                if r in (0, 4, 7):
                    @p
                    def decorated(m):
                        body(m)
                else:
                    @p
                    def decorated():
                        body(None)
                decorated()
            else:
                m = p.start()
                try:
                    body(m)
                finally:
                    if a == 2:
                        p.stop()
                    else:
                        asynq.mock.patch.stopall()
        except Boom:
            pass
        except Exception as e:
            prog.reraise_control(e)
            return rec.fail("%s: activating the patch raised %r%s" % (
                desc, e, "" if get_raw() is orig_raw else " and left the replacement installed"))
        if problem[0]:
            return rec.fail("%s: %s" % (desc, problem[0]))
        if get_raw() is not orig_raw:
            return rec.fail("%s: the original object is not back in place after the patch ended" % desc)
        if ns == 2:
            kw2, kind2, _ = make_repl(1, "B", rv)
            with mkpatch(kw2):
                pass
            if get_raw() is not orig_raw:
                return rec.fail("%s: original not restored after a sequential second patch" % desc)
        if ns == 3:
            # the SAME patcher object activated a second time (a decorated function called twice, start/stop/start)
            problem[0] = None
            m = p.start()
            try:
                problem[0] = inside("A", m)
            finally:
                p.stop()
            if problem[0]:
                return rec.fail("%s: second activation of the same patcher: %s" % (desc, problem[0]))
            if get_raw() is not orig_raw:
                return rec.fail("%s: original not restored after the second activation" % desc)
        if t != 4:
            o = get_user()(x, y=2)
            if not (isinstance(o, tuple) and str(o[0]).startswith("orig")):
                return rec.fail("%s: original behaviour not restored: %r" % (desc, o))
        rec.wit("paths")
        rec.done(("c19", t, r, a, ex, ns), True)
        return True
    finally:
        try:
            umock.patch.stopall()
        except Exception:
            pass
        setattr_safe(owner, attr, orig_raw)
        logging.disable(logging.NOTSET)
        prog.reset_globals()


def setattr_safe(owner, attr, raw):
    try:
        if owner.__dict__.get(attr) is not raw:
            setattr(owner, attr, raw)
    except Exception:
        pass


def conds(tier):
    return [Cond("matrix", f_patch,
                 [I("tk", 0, len(TARGETS) - 1), I("rk", 0, len(REPL) - 1), I("act", 0, len(ACT) - 1), B("exc"),
                  I("nest", 0, 3), I("x"), I("rv")], pin=2, builds=("C",), budget=200,
                 family="target kind x replacement kind x activation x exit x nesting, symbolic argument/return value",
                 encodes=ENC)]
