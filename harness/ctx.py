"""F-CTX: with-blocks of every context kind at symbolic positions in concurrently pending tasks."""
from vlib.spec import Cond, I, B
from harness import fam
from harness.fam import conc, concb
from harness.prog import (check_program, TaskD, SEQ, Y, TASK, ITEM, CONST, READ, WITH, TRY, RAISE, RET,
                          SYNC, NONE, ENTER, LEAVE, OVERLAP, WITHPRE)

ENC_CTX = [
    "asynq/contexts.py: AsyncContext.__enter__/__exit__, NonAsyncContext.__enter__/__exit__/pause/resume, "
    "enter_context, leave_context",
    "asynq/async_task.py: AsyncTask._enter_context, _leave_context, _pause_contexts, _resume_contexts, "
    "_continue, _accept_error, _computed",
    "asynq/scheduler.py: TaskScheduler._handle_async_task, _continue_with_task, _execute, wait_for",
    "asynq/scoped_value.py: AsyncScopedValue.get/override, _AsyncScopedValueOverrideContext.resume/pause, "
    "_AsyncPropertyOverrideContext.resume/pause",
]

BLOCKS2 = [(0, 0), (0, 1), (0, 2), (1, 1), (1, 2), (2, 2)]
BLOCKS3 = [(0, 1), (0, 2), (0, 3), (1, 2), (1, 3), (2, 3), (1, 1)]


def step_node(sel, name, i, k, v):
    """0: item kind k   1: child task that reads, blocks on an item, reads   2: const (does not block)
       3: item of the other kind   4: child that only reads (does not block)   5: synchronous call"""
    if sel == 0:
        return Y(0, ITEM(k, v + i))
    if sel == 1:
        return Y(0, TASK(TaskD("%sk%d" % (name, i), SEQ(READ(0), READ("attr"), Y(0, ITEM(k, v + 10 + i)), READ(0)))))
    if sel == 2:
        return Y(0, CONST(v + i))
    if sel == 3:
        return Y(0, ITEM(1 - k, v + i))
    if sel == 4:
        return Y(0, TASK(TaskD("%sr%d" % (name, i), SEQ(READ(0), READ("attr")))))
    if sel == 5:
        return SYNC(0, TASK(TaskD("%ss%d" % (name, i), SEQ(READ(0), Y(0, ITEM(k, v + 20 + i)), READ(0)))))
    if sel == 6:
        return Y(0, ITEM(k, v + i, "err"))       # an awaited item fails: the error is thrown into the block
    if sel == 7:
        return Y(0, TASK(fam.raising_task("%sx%d" % (name, i), i, after_items=1, kind=k, v=v)))
    if sel == 8:
        # three levels: this task -> intermediate -> leaf that reads again after every flush
        leaf = TaskD("%sl%d" % (name, i), SEQ(READ(0), READ("attr"), Y(0, ITEM(k, v + 30 + i)), READ(0),
                                              Y(0, ITEM(1 - k, v + 31 + i)), READ(0), READ("attr")))
        mid = TaskD("%sm%d" % (name, i), SEQ(Y(0, TASK(leaf)), READ(0)))
        return Y(0, TASK(mid))
    if sel == 9:
        # a synchronous call whose callee fails because its own context cannot be resumed after a flush; the
        # caller catches that and carries on (and may then open a context of its own)
        callee = TaskD("%sq%d" % (name, i), WITH(("rec", "%sq%d" % (name, i), ("resume", 2)),
                                                 SEQ(Y(0, ITEM(k, v + 40 + i)), Y(0, ITEM(k, v + 41 + i)))))
        return TRY(SYNC(0, TASK(callee)), "cont")
    raise AssertionError(sel)


def ctx_wrap(kind, cid, ov, node):
    """0 rec   1 sv override   2 attr override   3 non-async   4 rec(sv(..))   5 sv(rec(..))
       6 rec(na(..))   7 rec(rec2(..))"""
    if kind == 0:
        return WITH(("rec", cid), node)
    if kind == 1:
        return WITH(("sv", 0, ov), node)
    if kind == 2:
        return WITH(("attr", ov), node)
    if kind == 3:
        return WITH(("na", cid), node)
    if kind == 4:
        return WITH(("rec", cid), WITH(("sv", 0, ov), node))
    if kind == 5:
        return WITH(("sv", 0, ov), WITH(("rec", cid), node))
    if kind == 6:
        return WITH(("rec", cid), WITH(("na", cid + "n"), node))
    if kind == 7:
        return WITH(("rec", cid), WITH(("rec", cid + "b"), node))
    if kind == 8:
        # two nested overrides of the SAME target in one task
        return WITH(("sv", 0, ov), WITH(("sv", 0, ov + 1), node))
    if kind == 9:
        return WITH(("attr", ov), WITH(("rec", cid), WITH(("attr", ov + 1), node)))
    if kind == 10:
        # an override around a context whose first pause() raises
        return WITH(("sv", 0, ov), WITH(("rec", cid, ("pause", 1)), node))
    if kind == 11:
        return WITH(("rec", cid + "o"), WITH(("rec", cid, ("pause", 1)), node))
    if kind == 12:
        # overlapping, non-nested blocks: `with ExitStack() as st: with a: st.enter_context(b); <node>` - a is left
        # first, then a blocking yield happens with only b open, then b is left
        return OVERLAP(("rec", cid), ("rec", cid + "b"), node, Y(0, ITEM(0, ov)))
    if kind == 13:
        return OVERLAP(("sv", 0, ov), ("rec", cid), node, SEQ(READ(0), Y(0, ITEM(1, ov)), READ(0)))
    if kind == 14:
        # an override object that re-asserts the value current at its creation, created before the enclosing
        # override of the same target is entered, and entered inside it
        return WITHPRE(0, ov, node)
    raise AssertionError(kind)


def ctx_task(name, steps, blk, ckind, xmode, k, ov, v):
    """with-block around steps[a:b]; xmode 0 normal exit, 1 early return from inside the block,
    2 exception raised inside (escapes the task), 3 raised inside and caught outside the block,
    4 result()-style task"""
    a, b = blk
    nodes = [step_node(s, name, i, k, v) for i, s in enumerate(steps)]
    inner = [READ(0), READ("attr")] + nodes[a:b] + [READ(0)]
    if xmode == 1:
        inner.append(RET(v))
    elif xmode in (2, 3):
        inner.append(RAISE(name))
    block = ctx_wrap(ckind, name, ov, SEQ(*inner))
    if xmode == 3:
        block = TRY(block, "cont")
    body = [READ(0)] + nodes[:a] + [block] + nodes[b:] + [READ(0), READ("attr")]
    return TaskD(name, SEQ(*body), ret="result" if xmode == 4 else "return")


def mk_ctx2(props, nsteps=2, step_set=(0, 1, 2), ckinds=(0, 1, 3, 4), xmodes=3, t1_kinds=(0, 1)):
    blocks = BLOCKS2 if nsteps == 2 else BLOCKS3

    def f(blk0, ck0, x0, *a):
        st0 = [step_set[conc(a[i], len(step_set))] for i in range(nsteps)]
        ck1, k0, k1, ov0, ov1, p0, p1, ho, v = a[nsteps:]
        b0 = blocks[conc(blk0, len(blocks))]
        c0 = ckinds[conc(ck0, len(ckinds))]
        xm0 = conc(x0, xmodes)
        c1 = t1_kinds[conc(ck1, len(t1_kinds))]
        kk0, kk1 = conc(k0, 2), conc(k1, 2)
        T0 = ctx_task("T0", st0, b0, c0, xm0, kk0, ov0, v)
        T1 = ctx_task("T1", [0, 0], (0, 2), c1, 0, kk1, ov1, v + 100)
        td = TaskD("root", SEQ(READ(0), TRY(Y(4, TASK(T0), TASK(T1)), "cont"), READ(0), READ("attr")))
        return check_program(td, props, nkinds=2, prio=[p0, p1], hash_order=conc(ho, 2), sv_init=(v + 1000, 0),
                             sig=("ctx2", tuple(st0), b0, c0, xm0, c1, kk0, kk1))
    return f


def ctx2_params(nsteps=2, nstep_opts=3, nck=4, xmodes=3, nt1=2, ho=1):
    nb = len(BLOCKS2) if nsteps == 2 else len(BLOCKS3)
    return ([I("blk0", 0, nb - 1), I("ck0", 0, nck - 1), I("x0", 0, xmodes - 1)]
            + [I("s%d" % i, 0, nstep_opts - 1) for i in range(nsteps)]
            + [I("ck1", 0, nt1 - 1), I("k0", 0, 1), I("k1", 0, 1), I("ov0"), I("ov1"),
               I("p0"), I("p1"), I("ho", 0, ho), I("v")])


def mk_over3(props, n=3, nested=False):
    """n concurrently pending tasks overriding the same scoped value (the layout the property
    text singles out); each reads before/inside/after and blocks twice inside the override."""
    def f(*a):
        ks = [conc(a[i], 2) for i in range(2 * n)]
        ovs = a[2 * n:3 * n]
        p0, p1, ho, v, failer = a[3 * n:3 * n + 5]
        fl = conc(failer, n + 1)
        kids = []
        for i in range(n):
            inner = [READ(0), Y(0, ITEM(ks[2 * i], v + i)), READ(0)]
            if fl == i + 1:
                inner.append(RAISE("f%d" % i))
            inner += [Y(0, ITEM(ks[2 * i + 1], v + 10 + i)), READ(0)]
            if nested:
                inner = [READ(0), Y(0, TASK(TaskD("N%d" % i, WITH(("sv", 0, ovs[i] + 1), SEQ(*inner))))), READ(0)]
            kids.append(TASK(TaskD("O%d" % i, SEQ(READ(0), WITH(("rec", "R%d" % i), WITH(("sv", 0, ovs[i]), SEQ(*inner))), READ(0)))))
        td = TaskD("root", SEQ(READ(0), TRY(Y(fam.LIST_T[n], *kids), "cont"), READ(0)))
        return check_program(td, props, nkinds=2, prio=[p0, p1], hash_order=conc(ho, 2), sv_init=(v + 1000, 0),
                             sig=("over", n, tuple(ks), fl, nested))
    return f


def over_params(n):
    return ([I("k%d" % i, 0, 1) for i in range(2 * n)] + [I("ov%d" % i) for i in range(n)]
            + [I("p0"), I("p1"), I("ho", 0, 1), I("v"), I("failer", 0, n)])


def mk_shared(props):
    """A shared in-flight task with its own override, awaited by two tasks under different overrides; an
    unshared reader next to it must see its own awaiter's override (reads inside the shared task are made
    only inside its own override, where they are unambiguous)."""
    from harness.prog import SHARED

    def f(order, rorder, ks0, ks1, kr, ka, ovs, ova, ovb, p0, p1, ho, v):
        S = TaskD("S", WITH(("sv", 0, ovs), WITH(("attr", ovs + 1),
                  SEQ(READ(0), Y(0, ITEM(conc(ks0, 2), v)), READ(0), READ("attr"), Y(0, ITEM(conc(ks1, 2), v + 1)), READ(0)))))
        R = TaskD("R", SEQ(READ(0), READ("attr"), Y(0, ITEM(conc(kr, 2), v + 5)), READ(0), READ("attr")))
        T0 = TaskD("T0", WITH(("sv", 0, ova), WITH(("attr", ova + 1),
                   SEQ(Y(0, ITEM(conc(ka, 2), v + 7)) if conc(ka, 3) < 2 else SEQ(), Y(0, SHARED("s", S)), READ(0), READ("attr")))))
        pair = [SHARED("s", S), TASK(R)] if conc(rorder, 2) == 0 else [TASK(R), SHARED("s", S)]
        T1 = TaskD("T1", WITH(("sv", 0, ovb), WITH(("attr", ovb + 1), SEQ(Y(2, *pair), READ(0), READ("attr")))))
        kids = [TASK(T0), TASK(T1)] if conc(order, 2) == 0 else [TASK(T1), TASK(T0)]
        td = TaskD("root", SEQ(READ(0), Y(4, *kids), READ(0), READ("attr")))
        return check_program(td, props, nkinds=2, prio=[p0, p1], hash_order=conc(ho, 2), sv_init=(v + 1000, 0),
                             sig=("shared", conc(order, 2), conc(rorder, 2), conc(ks0, 2), conc(ks1, 2), conc(kr, 2), conc(ka, 3)))
    return f


SHARED_PARAMS = [I("order", 0, 1), I("rorder", 0, 1), I("ks0", 0, 1), I("ks1", 0, 1), I("kr", 0, 1), I("ka", 0, 2),
                 I("ovs"), I("ova"), I("ovb"), I("p0"), I("p1"), I("ho", 0, 1), I("v")]
