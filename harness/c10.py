"""C10: a future is completed at most once and reports one consistent outcome (API histories
against an explicit reference state machine)."""
import contextlib
import io

import asynq
from asynq import futures as F
from vlib.spec import Cond, I, B
from vlib import rec
from harness.fam import conc, concb
from harness import prog

ENC = ["asynq/futures.py: FutureBase.value/error/__call__/is_computed/set_value/set_error/reset_unsafe/"
       "_computed, Future._compute, ConstFuture, ErrorFuture",
       "asynq/async_task.py: AsyncTask._compute/_computed/_queue_exit/_queue_throw_error",
       "asynq/batching.py: BatchItemBase._compute, BatchBase.flush/_compute/_computed"]

NOPS = 10
OPNAMES = ["value", "error", "call", "is_computed", "set_value", "set_error", "reset_unsafe", "sub_good", "sub_raise",
           "sub_once (a subscriber that unsubscribes itself when notified)"]


class _B(asynq.BatchBase):
    cur = [None]

    def _try_switch_active_batch(self):
        if _B.cur[0] is self:
            _B.cur[0] = _B()

    def _flush(self):
        for it in self.items:
            if not it.is_computed():
                if it.fail:
                    it.set_error(it.perr)
                else:
                    it.set_value(it.pv)


class _It(asynq.BatchItemBase):
    def __init__(self, pv, fail, perr):
        if _B.cur[0] is None or _B.cur[0].is_flushed():
            _B.cur[0] = _B()
        asynq.BatchItemBase.__init__(self, _B.cur[0])
        self.pv, self.fail, self.perr = pv, fail, perr


class Model(object):
    def __init__(self, kind, pv, perr):
        self.kind = kind
        self.pv = pv
        self.perr = perr
        self.runs = 0
        self.subs = []            # (sid, raising)
        self.notes = []           # expected notifications (sid, outcome)
        self.const = kind in (2, 3)
        if kind == 2:
            self.state = ("v", pv)
        elif kind == 3:
            self.state = ("e", perr)
        else:
            self.state = None
        self.dead = False          # task generator consumed

    def complete(self, st):
        self.state = st
        if not self.const:
            for ent in list(self.subs):
                self.notes.append((ent[0], st))
                if len(ent) > 2 and ent[2]:
                    self.subs.remove(ent)       # one-shot: gone after its first notification

    def compute(self):
        """-> exception to be raised by the computing call itself (Future re-raises), or None"""
        k = self.kind
        if k in (0, 1, 4, 5):
            self.runs += 1
        if k == 0:
            self.complete(("v", self.pv))
            return None
        if k == 1:
            self.complete(("e", self.perr))
            return self.perr
        if k == 4:
            self.complete(("v", self.pv))
            return None
        if k == 5:
            self.complete(("e", self.perr))
            return None
        if k == 6:
            self.complete(("v", self.pv))
            return None
        if k == 7:
            self.complete(("e", self.perr))
            return None
        raise AssertionError(k)


def mk(L):
    def f(kind, *a):
        ops = [conc(a[i], NOPS) for i in range(L)]
        vals = a[L:2 * L]
        pv = a[2 * L]
        k = conc(kind, 8)
        rec.clear_fail()
        prog.reset_globals()
        _B.cur[0] = None
        perr = (prog.FE if k % 2 else prog.E)("provider")    # odd kinds: a falsy error object
        runs = [0]

        def prov_ok():
            runs[0] += 1
            return pv

        def prov_bad():
            runs[0] += 1
            raise perr

        @asynq.asynq()
        def t_ok():
            runs[0] += 1
            return pv
            yield

        @asynq.asynq()
        def t_bad():
            runs[0] += 1
            raise perr
            yield

        if k == 0:
            fut = F.Future(prov_ok)
        elif k == 1:
            fut = F.Future(prov_bad)
        elif k == 2:
            fut = F.ConstFuture(pv)
        elif k == 3:
            fut = F.ErrorFuture(perr)
        elif k == 4:
            fut = t_ok.asynq()
        elif k == 5:
            fut = t_bad.asynq()
        elif k == 6:
            fut = _It(pv, False, perr)
        else:
            fut = _It(pv, True, perr)
        m = Model(k, pv, perr)
        got_notes = []
        nsub = [0]

        def mk_cb(sid, raising, once=False):
            def cb(fu):
                # the outcome must be visible when subscribers are notified
                if not fu.is_computed():
                    got_notes.append((sid, "NOT-COMPUTED"))
                else:
                    got_notes.append((sid, ("e", fu._error) if fu._error is not None else ("v", fu._value)))
                if once:
                    fu.on_computed.unsubscribe(cb)
                if raising:
                    raise ValueError("subscriber fails")
            return cb

        sink = io.StringIO()
        # stub (environment = output formatting): FutureBase._computed prints the traceback of a failing
        # subscriber; the chained StopIteration(value) would be formatted, i.e. a symbolic value realised
        # per concrete integer.  Formatting is not the subject here.
        import traceback as _tb
        saved_print_exc = _tb.print_exc
        _tb.print_exc = lambda *a, **k: None
        try:
            for i, op in enumerate(ops):
                v = vals[i]
                exp = None
                # ---- model
                if op in (0, 2):
                    raised = None
                    if m.state is None:
                        raised = m.compute()
                    if raised is not None:
                        exp = ("e", raised)
                    elif m.state[0] == "e":
                        exp = ("e", m.state[1])
                    else:
                        exp = ("v", m.state[1])
                elif op == 1:
                    raised = None
                    first = m.state is None
                    if first:
                        raised = m.compute()
                    if raised is not None:
                        exp = ("free",)       # the statement is silent: first error() may return or raise
                    else:
                        exp = ("v", m.state[1] if m.state[0] == "e" else None)
                elif op == 3:
                    exp = ("v", m.state is not None)
                elif op == 4:
                    if m.state is not None:
                        exp = ("e", "FIAC")
                    else:
                        m.complete(("v", v))
                        exp = ("v", None)
                elif op == 5:
                    if m.state is not None:
                        exp = ("e", "FIAC")
                    else:
                        err = (prog.FE if i % 2 else prog.E)(("set", i))
                        m.complete(("e", err))
                        exp = ("v", None)
                elif op == 6:
                    m.state = None
                    exp = ("v", None)
                else:
                    nsub[0] += 1
                    m.subs.append((nsub[0], op == 8, op == 9))
                    exp = ("v", None)
                # ---- real
                try:
                    with contextlib.redirect_stdout(sink), contextlib.redirect_stderr(sink):
                        if op == 0:
                            r = fut.value()
                        elif op == 1:
                            r = fut.error()
                        elif op == 2:
                            r = fut()
                        elif op == 3:
                            r = fut.is_computed()
                        elif op == 4:
                            r = fut.set_value(v)
                        elif op == 5:
                            r = fut.set_error(m.state[1] if (exp == ("v", None) and m.state and m.state[0] == "e") else (prog.FE if i % 2 else prog.E)(("set", i)))
                        elif op == 6:
                            r = fut.reset_unsafe()
                        else:
                            r = fut.on_computed.subscribe(mk_cb(nsub[0], op == 8, op == 9))
                            r = None
                    got = ("v", r)
                except F.FutureIsAlreadyComputed:
                    got = ("e", "FIAC")
                except Exception as e:
                    prog.reraise_control(e)
                    got = ("e", e)
                # ---- compare
                if exp == ("free",):
                    ok = (got == ("v", m.state[1])) or (got[0] == "e" and got[1] is m.state[1])
                elif exp[0] == "e":
                    ok = got[0] == "e" and (got[1] is exp[1] or got[1] == exp[1])
                else:
                    if got[0] != "v":
                        ok = False
                    elif op == 1:
                        ok = got[1] is exp[1]
                    else:
                        ok = bool(got[1] == exp[1])
                if not ok:
                    return rec.fail("kind %d ops %s: op #%d %s returned %r, reference state machine expects %r" % (
                        k, [OPNAMES[o] for o in ops], i, OPNAMES[op], got, exp))
                # after an explicit reset of a task the generator is gone: stop modelling
                if op == 6 and k in (4, 5, 6, 7) and False:
                    break
                if k >= 2 and op == 6:
                    # reset_unsafe on tasks/items: their computation cannot be re-run meaningfully; the
                    # statement only bounds behaviour "until an explicit reset_unsafe()"
                    rec.wit("reset_on_task_or_item")
                    rec.done(("c10", k, tuple(ops[:i + 1])), True)
                    return True
            # notifications: every subscriber exactly once per completion, outcome visible
            gn = [(s, (o[0], o[1])) if o != "NOT-COMPUTED" else (s, o) for s, o in got_notes]
            en = [(s, (o[0], o[1])) for s, o in m.notes]
            if len(gn) != len(en):
                return rec.fail("kind %d ops %s: %d notifications, expected %d" % (k, [OPNAMES[o] for o in ops], len(gn), len(en)))
            for (gs, go), (es, eo) in zip(gn, en):
                if gs != es or go == "NOT-COMPUTED" or go[0] != eo[0]:
                    return rec.fail("kind %d ops %s: notification %r, expected %r" % (k, [OPNAMES[o] for o in ops], (gs, go), (es, eo)))
                if eo[0] == "e":
                    if go[1] is not eo[1]:
                        return rec.fail("notification saw a different error object")
                elif go[1] != eo[1]:
                    return rec.fail("notification saw value %r, expected %r" % (go[1], eo[1]))
            if runs[0] != m.runs:
                return rec.fail("kind %d ops %s: underlying computation ran %d times, expected %d" % (
                    k, [OPNAMES[o] for o in ops], runs[0], m.runs))
            rec.wit("paths")
            if m.notes:
                rec.wit("paths_with_notifications")
            rec.done(("c10", k, tuple(ops)), any(o in (0, 1, 2, 4, 5) for o in ops))
            return True
        finally:
            _tb.print_exc = saved_print_exc
            prog.reset_globals()
    return f


def f_ext(how, cleanup, subs, when, again, v):
    """A task is completed from outside (set_value / set_error by another task) while its generator is suspended
    at a yield - with a clean-up (finally) that may raise when the generator is closed: subscribers are still
    notified exactly once with the outcome visible, the outcome stays what was set, a later set raises."""
    hw, cl, sb, wn, ag = conc(how, 2), concb(cleanup), conc(subs, 3), conc(when, 2), conc(again, 3)
    rec.clear_fail()
    prog.reset_globals()
    _B.cur[0] = None
    import traceback as _tb
    saved_print_exc = _tb.print_exc
    _tb.print_exc = lambda *a, **k: None
    sink = io.StringIO()
    notes = []
    err = prog.E("set from outside")
    state = {"set_raised": None, "again": None}
    try:
        @asynq.asynq()
        def victim():
            try:
                x = yield _It(v, False, None)
                return x
            finally:
                if cl:
                    raise RuntimeError("clean-up fails")

        def mk_cb(sid, raising):
            def cb(fu):
                notes.append((sid, fu.is_computed(), fu._value, fu._error))
                if raising:
                    raise ValueError("subscriber fails")
            return cb

        def complete(t):
            try:
                if hw == 0:
                    t.set_value(v + 1)
                else:
                    t.set_error(err)
            except RuntimeError as e:
                state["set_raised"] = e       # the clean-up error may surface here (statement is silent)
            if ag:
                try:
                    if ag == 1:
                        t.set_value(v + 2)
                    else:
                        t.set_error(prog.E("second"))
                    state["again"] = "accepted"
                except F.FutureIsAlreadyComputed:
                    state["again"] = "FIAC"

        @asynq.asynq()
        def killer(t):
            complete(t)
            return 1

        @asynq.asynq()
        def root(t):
            try:
                yield [t, killer.asynq(t)]
            except Exception as e:
                prog.reraise_control(e)
            return 1

        with contextlib.redirect_stdout(sink), contextlib.redirect_stderr(sink):
            t = victim.asynq()
            t.on_computed.subscribe(mk_cb(1, sb == 1))
            t.on_computed.subscribe(mk_cb(2, sb == 2))
            if wn == 1:
                complete(t)             # before the task ever started
            else:
                root(t)
        desc = "task completed from outside by %s %s, clean-up %s, subscribers %d, second set %d" % (
            "set_value" if hw == 0 else "set_error", "before start" if wn else "while suspended on a batch item",
            "raises" if cl else "ok", sb, ag)
        if not t.is_computed():
            return rec.fail(desc + ": task is not computed")
        if sorted(n[0] for n in notes) != [1, 2]:
            return rec.fail(desc + ": subscribers notified %r, expected each exactly once" % ([n[0] for n in notes],))
        for sid, comp, val, er in notes:
            if not comp:
                return rec.fail(desc + ": subscriber %d notified before the outcome was visible" % sid)
        if ag and state["again"] != "FIAC":
            return rec.fail(desc + ": a second set on the completed task was %r" % (state["again"],))
        if hw == 0:
            if t.error() is not None or t.value() != v + 1 or t() != v + 1:
                return rec.fail(desc + ": outcome is not the value that was set")
        else:
            if t.error() is not err:
                return rec.fail(desc + ": error() is %r, not the error that was set" % (t.error(),))
            for call in (t.value, t):
                try:
                    call()
                    return rec.fail(desc + ": value()/call did not raise the error that was set")
                except prog.E as e:
                    if e is not err:
                        return rec.fail(desc + ": raised another error object")
        rec.wit("paths")
        rec.done(("c10ext", hw, cl, sb, wn, ag), True)
        return True
    finally:
        _tb.print_exc = saved_print_exc
        prog.reset_globals()


def params(L, kmax=7):
    return [I("kind", 0, kmax)] + [I("o%d" % i, 0, NOPS - 1) for i in range(L)] + [I("v%d" % i) for i in range(L)] + [I("pv")]


def conds(tier):
    q = tier == "quick"
    ext = Cond("external", f_ext, [I("how", 0, 1), B("cleanup"), I("subs", 0, 2), I("when", 0, 1), I("again", 0, 2), I("v")],
               pin=1, builds=("C", "P"), budget=100,
               family="a task completed from outside while suspended at a yield (clean-up may raise), subscribers "
                      "good/raising, second set", encodes=ENC)
    if q:
        return [ext, Cond("hist3", mk(3), params(3), pin=2, builds=("C", "P"), budget=300,
                     family="future API histories of length 3 x 8 future kinds", encodes=ENC),
                Cond("hist4", mk(4), params(4, 1), pin=3, builds=("C",), budget=300,
                     family="future API histories of length 4 x lazy Future (returning/raising provider)",
                     encodes=ENC)]
    return [ext, Cond("hist4", mk(4), params(4), pin=3, builds=("C", "P"), budget=1500,
                 family="future API histories of length 4 x 8 future kinds", encodes=ENC),
            Cond("hist5", mk(5), params(5, 1), pin=3, builds=("C",), budget=1800,
                 family="future API histories of length 5 x lazy Future", encodes=ENC)]
