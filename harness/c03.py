"""C03: exactly-once resumption, only when everything awaited is done; start order; laziness;
termination (watchdog) incl. very deep chains."""
import asynq
from vlib.spec import Cond, I, B
from vlib import rec
from harness import core, fam
from harness import prog

P = {"c03"}


class _DeepBatch(asynq.BatchBase):
    def _try_switch_active_batch(self):
        if _cur[0] is self:
            _cur[0] = _DeepBatch()

    def _flush(self):
        for it in self.items:
            if it.fail:
                it.set_error(prog.E("leaf"))
            else:
                it.set_value(it.v)


_cur = [None]


class _DeepItem(asynq.BatchItemBase):
    def __init__(self, v, fail):
        if _cur[0] is None or _cur[0].is_flushed():
            _cur[0] = _DeepBatch()
        asynq.BatchItemBase.__init__(self, _cur[0])
        self.v = v
        self.fail = fail


@asynq.asynq()
def _deep(n, v, fail, catch_at):
    if n == 0:
        return (yield _DeepItem(v, fail))
    if n == catch_at:
        try:
            r = yield _deep.asynq(n - 1, v, fail, catch_at)
        except prog.E:
            return -n
        return r + 1
    r = yield _deep.asynq(n - 1, v, fail, catch_at)
    return r + 1


def mk_deep(depth):
    def f(v, fail, catch, two):
        rec.clear_fail()
        prog.reset_globals()
        _cur[0] = None
        catch_at = depth // 2 if catch else -1
        try:
            try:
                got = ("v", _deep(depth, v, fail, catch_at))
            except prog.E as e:
                got = ("e", e)
            if fail:
                if catch:
                    ok = got[0] == "v" and got[1] == -catch_at + (depth - catch_at)
                else:
                    ok = got[0] == "e"
                    if ok:
                        # glued traceback: one frame per task level, does not crash
                        import traceback
                        n = 0
                        tb = got[1].__traceback__
                        while tb is not None:
                            n += 1
                            tb = tb.tb_next
                        ok = n >= depth
                        if not ok:
                            rec.fail("traceback through %d task levels has only %d frames" % (depth, n))
            else:
                ok = got[0] == "v" and got[1] == v + depth
            if not ok:
                rec.fail("deep chain of %d tasks: got %r" % (depth, got[0]))
            s = asynq.scheduler.get_scheduler()
            if len(s._tasks) != 0:
                ok = rec.fail("scheduler stack not empty after deep chain")
            rec.wit("paths")
            rec.done(("deep", depth, bool(fail), bool(catch)), True)
            return ok
        finally:
            prog.reset_globals()
    return f


def conds(tier):
    q = tier == "quick"
    out = []
    out.append(core.shape_cond("order", P, [3, 4, 5, 13, 17, 6, 7, 12, 21] if q else list(range(22)),
                               fam.OK_MENU, 3 if q else 4, budget=200 if q else 900))
    out.append(core.seq_cond("seq", P, 3, 2, builds=("C", "P")))
    out.append(core.seq_cond("seq_opts", P, 3, 2, options=("COLLECT_PERF_STATS", "KEEP_DEPENDENCIES")))
    out.append(Cond("dag", core.mk_dag(P), core.DAG_PARAMS, builds=("C", "P"), pin=3, budget=120, family="F-DAG",
                    encodes=core.ENC_SCHED))
    out.append(Cond("tree", core.mk_tree(P, 3, 2, 2), core.tree_params(3, 2, 2), builds=("C", "P"), pin=3, budget=120,
                    family="F-TREE(3,2,2)", encodes=core.ENC_SCHED))
    out.append(Cond("steps", core.mk_steps(P, 2, 3), core.steps_params(2, 3), builds=("C", "P"), pin=2, budget=120,
                    family="F-STEPS(2,3)", encodes=core.ENC_SCHED))
    out.append(core.fault_cond("throw", P, [4] if q else [4, 6], g0modes=3, g1modes=3 if q else 5, pin=4,
                               budget=200 if q else 900, slim=q))
    DP = [I("v"), B("fail"), B("catch"), B("two")]
    out.append(Cond("deepC1500", mk_deep(1500), DP, pin=0, builds=("C",), budget=200, per_path=120,
                    family="F-DEEP", encodes=core.ENC_SCHED, extra_pre=["not two"],
                    note="chain of 1500 awaiting tasks (beyond the default recursion limit)"))
    out.append(Cond("deepP1100", mk_deep(1100), DP, pin=0, builds=("P",), budget=200, per_path=120,
                    family="F-DEEP", encodes=core.ENC_SCHED, extra_pre=["not two"]))
    out.append(core.cancel_cond("cancel", P))
    out.append(core.dagsync_cond("dagsync", P))
    if not q:
        out.append(Cond("deep20000", mk_deep(20000), DP, pin=0, builds=("C", "P"), budget=900, per_path=400,
                        family="F-DEEP", encodes=core.ENC_SCHED, extra_pre=["not two"]))
        out.append(Cond("tree4", core.mk_tree(P, 4, 3, 2), core.tree_params(4, 3, 2), pin=4, budget=900,
                        family="F-TREE(4,3,2)", encodes=core.ENC_SCHED))
    return out
