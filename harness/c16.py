"""C16 (bounded form): computations on different threads never interfere - sequentialised two-thread
schedules with hand-overs at harness-visible points decided by symbolic schedule bits."""
import asyncio
import threading

import asynq
from asynq.asynq_to_async import is_asyncio_mode
from asynq import asynq as A
from asynq import scheduler as S
from asynq import batching as BT
from asynq import profiler as PF
from asynq import _debug as DBG
from asynq.tools import deduplicate
from asynq.contexts import AsyncContext
from vlib.spec import Cond, I, B
from vlib import rec
from harness.fam import conc, concb
from harness import prog

ENC = ["asynq/scheduler.py: LocalTaskSchedulerState (thread-local), get_scheduler, get_active_task, TaskScheduler",
       "asynq/batching.py: LocalDebugBatchState (thread-local), DebugBatch, DebugBatchItem",
       "asynq/profiler.py: LocalProfileState (thread-local)", "asynq/tools.py: DeduplicateDecorator.cache_key "
       "(includes the current thread)", "asynq/asynq_to_async.py: _asyncio_mode ContextVar"]


class Turn(object):
    """Exactly one of the two threads runs at any time."""

    def __init__(self, stride=1):
        self.cv = threading.Condition()
        self.turn = "A"
        self.b_done = False
        self.handovers = 0
        self.stride = stride        # thread B gives the turn back at every stride-th of its points
        self.b_points = 0

    def _wait(self, who):
        if not self.cv.wait_for(lambda: self.turn == who, timeout=60):
            raise RuntimeError("hand-over protocol timed out")

    def a_point(self, bit):
        if not bit or self.b_done:
            return
        with self.cv:
            self.handovers += 1
            self.turn = "B"
            self.cv.notify_all()
            self._wait("A")

    def b_point(self):
        self.b_points += 1
        if self.b_points % self.stride:
            return
        with self.cv:
            self.turn = "A"
            self.cv.notify_all()
            self._wait("B")

    def b_start(self):
        with self.cv:
            self._wait("B")

    def b_finish(self):
        with self.cv:
            self.b_done = True
            self.turn = "A"
            self.cv.notify_all()


class RecCtx(AsyncContext):
    def __init__(self, log, name):
        self.log = log
        self.name = name

    def resume(self):
        self.log.append(("resume", self.name))

    def pause(self):
        self.log.append(("pause", self.name))


_tl = threading.local()


@deduplicate()
@A()
def shared_dd(k):
    """one deduplicated function shared by both threads, called with the same arguments in both"""
    st = _tl.state
    st["count"][k] = st["count"].get(k, 0) + 1
    st["hp"]()
    x = yield BT.DebugBatchItem("s", (st["tag"], "dd", k))
    st["hp"]()
    # (a second round: the execution is in flight over two flushes, so a later caller of the same thread can join it)
    x2 = yield BT.DebugBatchItem("s", (st["tag"], "dd'", k))
    return (st["tag"], k, x, x2)


def _dd2_key(args, kwargs):
    return args[0]


@deduplicate(keygetter=_dd2_key)
@A()
def shared_dd2(k, who):
    """deduplicated on k only (custom keygetter): `who` travels with the task, so a task handed over from another
    thread's table is visible in the result"""
    x = yield BT.DebugBatchItem("s", (who, "dd2", k))
    return (who, k, x)


def run_program(tag, vals, ks, hp, shape, perf):
    """One computation.  `hp()` is called at every harness-visible point.  Returns a trace dict."""
    tr = {"flushes": [], "ctx": [], "active_ok": True, "foreign": [], "result": None, "perf": None}
    sched = S.get_scheduler()
    me = threading.current_thread()

    def before(batch):
        items = [getattr(it, "_result", None) for it in batch.items]
        tr["flushes"].append((getattr(batch, "name", "?"), items))
        for r in items:
            if isinstance(r, tuple) and r and r[0] != tag:
                tr["foreign"].append(("item of the other thread in my batch", r))
        hp()
    sched.on_before_batch_flush.subscribe(before)
    count = {}
    _tl.state = {"tag": tag, "hp": hp, "count": count}
    dd = shared_dd
    pst = {"pb": None}

    class PB(asynq.BatchBase):
        """a user batch whose get_priority() is Python code: a hand-over point inside the scheduler's selection loop"""

        def __init__(self):
            asynq.BatchBase.__init__(self)
            pst["n"] = pst.get("n", 0) + 1
            self._h = pst["n"]

        def __hash__(self):
            return self._h          # small ints: set iteration visits the older (flushed) batch first

        def __eq__(self, other):
            return self is other

        def _try_switch_active_batch(self):
            if pst["pb"] is self:
                pst["pb"] = PB()

        def _flush(self):
            tr["flushes"].append(("pb-direct" if not tr.get("in_sched") else "pb", [it.v for it in self.items]))
            for it in self.items:
                it.set_value(it.v)

        def get_priority(self):
            hp()
            # never ties with a debug batch (whose priority is (0, n)) and loses against it: the user batch is
            # still pending when a task flushes it directly
            return (-1, len(self.items))

    class PI(asynq.BatchItemBase):
        def __init__(self, v):
            if pst["pb"] is None or pst["pb"].is_flushed():
                pst["pb"] = PB()
            asynq.BatchItemBase.__init__(self, pst["pb"])
            self.v = v

    @A()
    def pwait(i):
        a = yield PI((tag, "p", i))
        b = yield PI((tag, "q", i))
        return (a, b)

    @A()
    def pkick():
        x = PI((tag, "k", 0))            # joins the batch pwait is already blocked on (it is in the pending set)
        yield BT.DebugBatchItem("s", (tag, "kick", 0))
        return x.value()                 # flushes that batch directly: it stays in the pending set, flushed

    @A()
    def worker(i):
        own = asynq.get_active_task()
        hp()
        with RecCtx(tr["ctx"], (tag, i)):
            a = yield BT.DebugBatchItem("s", (tag, i, vals[i]))
            if asynq.get_active_task() is not own:
                tr["active_ok"] = False
            if is_asyncio_mode():
                tr["foreign"].append(("asyncio mode is on in a thread that runs plain asynq", i))
            if i == 1:
                # the second worker asks one flush later: the execution started for the first worker is in flight
                yield BT.DebugBatchItem("s", (tag, i, "late"))
            hp()
            if i == 0:
                dd.dirty(ks[0])          # forgets this thread's entry only
            b = yield dd.asynq(ks[i])
            b2 = yield shared_dd2.asynq(ks[i], tag)
            if b2[0] != tag:
                tr["foreign"].append(("deduplicated task created by another thread", b2))
            hp()
        if shape == 1:
            # (a second batch name; different item counts per batch at every point, also when the two workers are one
            #  round apart: no priority tie, so the flush order is determined)
            c = yield [BT.DebugBatchItem("t", (tag, i, 1)), BT.DebugBatchItem("s", (tag, i, 2)),
                       BT.DebugBatchItem("s", (tag, i, 4)), BT.DebugBatchItem("s", (tag, i, 5))]
        else:
            c = yield BT.DebugBatchItem("s", (tag, i, 3))
        if asynq.get_active_task() is not own:
            tr["active_ok"] = False
        return (a, b, c)

    @A()
    def root():
        # (pkick before pwait: after pkick flushed the batch directly, pwait continues in the same pass and makes a
        #  new batch pending, so one selection sees a flushed and a pending user batch)
        r = yield [worker.asynq(i) for i in range(len(vals))] + [pkick.asynq(), pwait.asynq(0)]
        return r

    @A()
    def aleaf(i):
        mode = is_asyncio_mode()
        hp()
        v = yield asynq.ConstFuture((tag, i, vals[i]))
        return (v, mode)

    @A()
    def aroot():
        hp()
        r = yield [aleaf.asynq(i) for i in range(len(vals))]
        hp()
        r2 = yield aleaf.asynq(0)
        hp()
        return (r, r2, is_asyncio_mode())

    def run_asyncio():
        loop = asyncio.new_event_loop()
        try:
            return loop.run_until_complete(aroot.asyncio())
        finally:
            loop.close()

    try:
        # (no profiler reset here: a thread that never touched the profiler starts with an empty buffer)
        try:
            tr["result"] = ("v", run_asyncio() if shape == 2 else root())
        except Exception as e:
            prog.reraise_control(e)
            tr["result"] = ("e", type(e).__name__, str(e)[:200])
        if perf:
            st = PF.flush()
            tr["perf"] = sorted(s["name"].split(".", 1)[-1][:40] for s in st)
        tr["count"] = dict(count)
        if asynq.get_active_task() is not None:
            tr["active_ok"] = False
        if S.get_scheduler() is not sched:
            tr["foreign"].append(("scheduler object changed", None))
        if BT._debug_batch_state.batches:
            for name, b in BT._debug_batch_state.batches.items():
                for it in b.items:
                    r = getattr(it, "_result", None)
                    if isinstance(r, tuple) and r and r[0] != tag:
                        tr["foreign"].append(("other thread's item left in my debug batch state", r))
    finally:
        sched.on_before_batch_flush.unsubscribe(before)
    return tr


def trace_key(tr):
    per_ctx = {}
    for k, name in tr["ctx"]:
        per_ctx.setdefault(name, []).append(k)
    # batch compositions as a multiset: the order among equal-priority batches is free (set iteration order)
    def fkey(f):
        # concrete sort key only (never format a symbolic value: that would realise it per integer)
        name, items = f
        return (str(name), len(items), tuple((str(it[0]), str(it[1])) if isinstance(it, tuple) and len(it) > 1 else ("-", "-")
                                             for it in items))
    return (tr["result"], sorted(tr["flushes"], key=fkey), sorted(per_ctx.items()), tr["active_ok"],
            tr["foreign"], tr.get("count"), tr["perf"])


def reset_thread_state():
    S.reset()
    BT._debug_batch_state.batches.clear()
    PF.reset()


def mk(nbits):
    def f(shapeA, shapeB, perf, ka0, ka1, va0, va1, skip, stride, *bits):
        sA, sB, pf = conc(shapeA, 3), conc(shapeB, 3), concb(perf)
        skipv = conc(skip, MAXSKIP + 1)
        ksA = [conc(ka0, 2), conc(ka1, 2)]
        ksB = [0, 0 if sB == 0 else 1]       # shape 0: both workers of B ask for the same key
        stridev = STRIDES[conc(stride, len(STRIDES))]
        valsA = [va0, va1]
        valsB = [7, 8]
        sched_bits = [concb(b) for b in bits]
        rec.clear_fail()
        prog.reset_globals()
        BT._debug_batch_state.batches.clear()
        old_perf = DBG.options.COLLECT_PERF_STATS
        DBG.options.COLLECT_PERF_STATS = pf      # the option itself is process-wide by design
        try:
            # --- each program alone (A on this thread, B on a fresh thread)
            aloneA = run_program("A", valsA, ksA, lambda: None, sA, pf)
            reset_thread_state()
            box = {}

            def b_alone():
                try:
                    box["t"] = run_program("B", valsB, ksB, lambda: None, sB, pf)
                except BaseException as e:   # noqa
                    box["t_exc"] = e
            th = threading.Thread(target=b_alone)
            th.start()
            th.join(60)
            if "t_exc" in box:
                return rec.fail("program B, alone on a fresh thread, failed: %r" % (box["t_exc"],))
            aloneB = box["t"]
            asynq.tools.DeduplicateDecorator.tasks.clear()
            # --- a short-lived earlier thread creates deduplicated tasks and abandons them (never run)
            def z_main():
                box["z"] = [shared_dd2.asynq(k, "Z") for k in (0, 1)] + [shared_dd.asynq(k) for k in (0, 1)]
            # (it carries the same thread name as thread B will: names are labels, not identities)
            _tl_z = threading.Thread(target=z_main, name=threading.current_thread().name)
            _tl_z.start()
            _tl_z.join(60)
            # --- both, interleaved at the hand-over points chosen by the schedule bits
            turn = Turn(stridev)
            pos = [0]

            def hpA():
                i = pos[0]
                pos[0] += 1
                # a sliding window: the first `skip` hand-over points of A pass without a hand-over, the next
                # len(bits) points are governed by the schedule bits, later ones pass again - so thread B can
                # be at an early stage while thread A is deep inside its computation, and vice versa
                j = i - skipv
                turn.a_point(sched_bits[j] if 0 <= j < len(sched_bits) else False)

            def b_main():
                try:
                    turn.b_start()
                    box["tb"] = run_program("B", valsB, ksB, turn.b_point, sB, pf)
                except BaseException as e:   # noqa
                    box["tb_exc"] = e
                finally:
                    turn.b_finish()
            # (thread names are not unique: the second thread deliberately carries the first one's name)
            th = threading.Thread(target=b_main, name=threading.current_thread().name)
            th.start()
            try:
                withA = run_program("A", valsA, ksA, hpA, sA, pf)
            finally:
                n = 0
                while not turn.b_done and n < 200:
                    turn.a_point(True)
                    n += 1
                th.join(60)
            if "tb_exc" in box:
                return rec.fail("program B failed while interleaved with A: %r" % (box["tb_exc"],))
            withB = box["tb"]
            if trace_key(withA) != trace_key(aloneA):
                return rec.fail("thread A's computation differs when thread B runs at hand-over points %r: "
                                "alone %r, interleaved %r" % (sched_bits, trace_key(aloneA), trace_key(withA)))
            if trace_key(withB) != trace_key(aloneB):
                return rec.fail("thread B's computation differs when interleaved with A at %r: alone %r, "
                                "interleaved %r" % (sched_bits, trace_key(aloneB), trace_key(withB)))
            if withA["foreign"] or withB["foreign"] or not withA["active_ok"] or not withB["active_ok"]:
                return rec.fail("a thread observed the other thread's state: %r %r" % (withA["foreign"], withB["foreign"]))
            rec.wit("paths")
            if turn.handovers:
                rec.wit("paths_with_handover")
            if turn.handovers > 1:
                rec.wit("paths_with_2+_handovers")
            rec.done(("c16", sA, sB, pf, tuple(ksA), skipv, stridev, tuple(sched_bits)), turn.handovers > 0)
            return True
        finally:
            DBG.options.COLLECT_PERF_STATS = old_perf
            prog.reset_globals()
            BT._debug_batch_state.batches.clear()
    return f


MAXSKIP = 24
STRIDES = [1, 3, 6]
# shape 0/1: batches + contexts + deduplicate (+ profiler); shape 2: the program runs through .asyncio() on its own loop
SHAPES = [(0, 0), (0, 1), (1, 0), (1, 1), (0, 2), (2, 0), (2, 2)]


def params(nbits):
    return ([I("shapeA", 0, 2), I("shapeB", 0, 2), B("perf"), I("ka0", 0, 1), I("ka1", 0, 1), I("va0"), I("va1"),
             I("skip", 0, MAXSKIP), I("stride", 0, len(STRIDES) - 1)] + [B("h%d" % i) for i in range(nbits)])


def conds(tier):
    q = tier == "quick"
    nb = 4 if q else 6
    return [Cond("handover", mk(nb), params(nb), pin=3, builds=("C", "P"), budget=300 if q else 1500, per_path=120,
                 extra_pre=["(shapeA, shapeB) in %r" % (SHAPES,)], shard_filter=lambda shapeA, shapeB, perf: (shapeA, shapeB) in SHAPES,
                 family="two threads, hand-over window of %d symbolic bits at a symbolic offset (0..24), the second thread runs "
                        "1/3/6 of its points per hand-over; programs use DebugBatchItem, deduplicate, contexts, "
                        "COLLECT_PERF_STATS, dirty(), a computation running in asyncio mode" % nb, encodes=ENC)]
