"""C12: deduplicate - one in-flight execution per key, shared by all callers."""
import asynq
from asynq import asynq as A
from asynq.tools import deduplicate
from vlib.spec import Cond, I, B
from vlib import rec
from harness.fam import conc, concb
from harness import prog
from harness.prog import RT, HItem

ENC = ["asynq/tools.py: DeduplicateDecorator.asynq/cache_key/dirty/__init__, DeduplicateDecoratorBinder, "
       "deduplicate (default keygetter via qcore.caching.get_args_tuple)",
       "asynq/decorators.py: AsyncDecorator, AsyncDecoratorBinder",
       "asynq/scheduler.py + asynq/async_task.py (the callers are real tasks blocked on real batches)"]

NCALL = 5       # function, method on A, method on B, staticmethod, a different function


def spell(f, sp, a, b, c):
    """All spellings denote the arguments (a, b, c); defaults are b=1, c=2 (only used when equal)."""
    if sp == 0:
        return f(a, b, c=c)
    if sp == 1:
        return f(a=a, b=b, c=c)
    if sp == 2:
        return f(a, c=c, b=b)
    if sp == 3 and b == 1 and c == 2:
        return f(a)
    if sp == 4 and c == 2:
        return f(a, b)
    return f(a, b, c=c)


def make_subjects(rt, count, failkey, selfrec=None):
    recstate = {"done": False}

    def body(tag, a, b, c):
        count[(tag, a, b, c)] = count.get((tag, a, b, c), 0) + 1
        if selfrec is not None and selfrec == (tag, a, b, c) and not recstate["done"]:
            # the body calls itself synchronously with the same key (the documented escape hatch: the nested
            # call gets a private task); afterwards the outer execution is still the in-flight one
            recstate["done"] = True
            recstate["inner"] = subs_box[0][tags_box[0].index(tag)].asynq(a, b, c=c).value()
        x = yield HItem(rt, 0, a, "ok", "dd%d" % len(rt.items))
        y = yield HItem(rt, 1, b, "ok", "dd%d" % len(rt.items))
        if failkey == (a, b, c):
            raise prog.E(("dd", tag, a, b, c))
        return [tag, a, b, c, x, y]        # a fresh list: identity shows sharing

    @deduplicate()
    @A()
    def dd(a, b=1, *, c=2):
        return (yield from body("f", a, b, c))

    @deduplicate()
    @A()
    def dd2(a, b=1, *, c=2):
        return (yield from body("g", a, b, c))

    class K(object):
        def __init__(self, t):
            self.t = t

        @deduplicate()
        @A()
        def m(self, a, b=1, *, c=2):
            return (yield from body("m%d" % self.t, a, b, c))

        @deduplicate()
        @A()
        @staticmethod
        def s(a, b=1, *, c=2):
            return (yield from body("s", a, b, c))

    ka, kb = K(0), K(1)
    subs_box[0] = [dd, ka.m, kb.m, ka.s, dd2]
    tags_box[0] = ["f", "m0", "m1", "s", "g"]
    return subs_box[0], tags_box[0]


subs_box = [None]
tags_box = [None]


def mk(nw=3):
    def f(*p):
        # per worker: callee, spelling, a, b, c, delay kind (0 none, 1 wait for kind-0 item first, 2 kind-1), dirty
        W = []
        for i in range(nw):
            cal, sp, a, b, c, dl, dirty = p[7 * i:7 * i + 7]
            W.append((conc(cal, NCALL), conc(sp, 5), conc(a, 2), conc(b, 2), 2 + conc(c, 2), conc(dl, 3), concb(dirty)))
        p0, p1, ho, fk, again = p[7 * nw:7 * nw + 5]
        selfrec_on = (len(p) > 7 * nw + 5) and concb(p[7 * nw + 5])
        rec.clear_fail()
        prog.reset_globals()
        rt = RT(nkinds=2, prio=[p0, p1], hash_order=conc(ho, 2))
        count = {}
        fkv = conc(fk, 3)
        failkey = None if fkv == 0 else (W[0][2], W[0][3], W[0][4]) if fkv == 1 else (1, 1, 2)
        tags0 = ["f", "m0", "m1", "s", "g"]
        selfrec = (tags0[W[0][0]], W[0][2], W[0][3], W[0][4]) if selfrec_on else None
        subs, tags = make_subjects(rt, count, failkey, selfrec)
        model = {}          # key -> task in flight
        created = {}        # key -> list of distinct tasks
        problems = []
        results = {}

        def do_call(i, w):
            cal, sp, a, b, c, dl, dirty = w
            key = (tags[cal], a, b, c)
            fn = subs[cal]
            if dirty:
                spell(fn.dirty, sp, a, b, c)
                model.pop(key, None)
            prev = model.get(key)
            t = spell(fn.asynq, sp, a, b, c)
            if prev is not None and not prev.is_computed():
                if t is not prev:
                    problems.append("worker %d: call with key %r while an execution is in flight returned a "
                                    "different task" % (i, key))
            else:
                if prev is not None and t is prev:
                    problems.append("worker %d: call with key %r after completion returned the finished task" % (i, key))
                for k2, t2 in list(model.items()):
                    if k2 != key and t2 is t:
                        problems.append("worker %d: key %r shares a task with different key %r" % (i, key, k2))
                if not any(t is x for x in created.get(key, [])):
                    created.setdefault(key, []).append(t)
                model[key] = t
            return key, t

        @A()
        def worker(i):
            w = W[i]
            if w[5] == 1:
                yield HItem(rt, 0, 100 + i, "ok", "w%d" % i)
            elif w[5] == 2:
                yield HItem(rt, 1, 100 + i, "ok", "w%d" % i)
            key, t = do_call(i, w)
            try:
                r = yield t
                results[i] = (key, t, ("v", r))
            except prog.E as e:
                results[i] = (key, t, ("e", e))

        @A()
        def root():
            yield [worker.asynq(i) for i in range(nw)]

        try:
            rt.attach()
            try:
                root()
            except Exception as e:
                prog.reraise_control(e)
                return rec.fail("computation failed: %r" % (e,))
            if problems:
                return rec.fail(problems[0])
            # every caller of one task received the same value / error object, with the right content
            for i, (key, t, out) in results.items():
                for j, (key2, t2, out2) in results.items():
                    if t is t2 and out[1] is not out2[1]:
                        return rec.fail("callers %d and %d of the same task received different objects" % (i, j))
                    if t is not t2 and key == key2 and out[0] == "v" and out[1] is out2[1]:
                        return rec.fail("different executions returned the same object")
                exp_fail = failkey == key[1:]
                if exp_fail != (out[0] == "e"):
                    return rec.fail("caller %d with key %r got %r" % (i, key, out))
                if out[0] == "v":
                    r = out[1]
                    if r[0] != key[0] or r[1] != key[1] or r[2] != key[2] or r[3] != key[3]:
                        return rec.fail("caller %d with key %r received another call's value %r" % (i, key, r))
            # the body ran once per distinct task created for the key
            for key, ts in created.items():
                extra = 1 if (selfrec is not None and key == selfrec) else 0
                if count.get(key, 0) != len(ts) + extra:
                    return rec.fail("body for key %r ran %d times for %d created executions" % (key, count.get(key, 0), len(ts)))
            # after completion the next call runs the body again
            if concb(again):
                w = W[0]
                key = (tags[w[0]], w[2], w[3], w[4])
                before = count.get(key, 0)
                t = spell(subs[w[0]].asynq, w[1], w[2], w[3], w[4])
                if any(t is x for x in created.get(key, [])):
                    return rec.fail("call after completion returned the completed task for key %r" % (key,))
                try:
                    t.value()
                except prog.E:
                    pass
                if count.get(key, 0) != before + 1:
                    return rec.fail("call after completion did not run the body again for key %r" % (key,))
            if asynq.tools.DeduplicateDecorator.tasks:
                return rec.fail("deduplication table still holds %d entries after everything completed" % len(
                    asynq.tools.DeduplicateDecorator.tasks))
            rec.wit("paths")
            if any(len(ts) > 0 and sum(1 for r in results.values() if r[0] == key) > len(ts) for key, ts in created.items()):
                rec.wit("paths_with_shared_execution")
            rec.done(("c12", tuple(W), fkv, concb(again)), True)
            return True
        finally:
            prog.detach(rt)
            prog.reset_globals()
    return f


class Lease(asynq.AsyncContext):
    """a context whose k-th resume raises; once that happened its pause raises as well (so closing the suspended
    body raises)"""

    def __init__(self, k, pause_too):
        self.n = 0
        self.k = k
        self.pause_too = pause_too
        self.failed = False

    def resume(self):
        self.n += 1
        if self.n == self.k:
            self.failed = True
            raise prog.E(("lease", "resume"))

    def pause(self):
        if self.failed and self.pause_too:
            raise prog.E(("lease", "pause"))


def f_abnormal(cal, ncallers, k, pause_too, inner, kk, a, p0, p1):
    """the single execution ends abnormally - a context of the body cannot be resumed after a flush, and (pause_too)
    closing the suspended body raises as well: the key is free again afterwards, the next call runs the body"""
    calv, nc, kv, pt, inn, kkv = conc(cal, 3), 1 + conc(ncallers, 2), 2 + conc(k, 2), concb(pause_too), concb(inner), conc(kk, 2)
    av = conc(a, 2)
    rec.clear_fail()
    prog.reset_globals()
    rt = RT(nkinds=2, prio=[p0, p1], hash_order=0)
    count = [0]
    lease_on = [True]

    def body(tag, a):
        count[0] += 1
        if lease_on[0]:
            with Lease(kv, pt):
                x = yield HItem(rt, kkv, a, "ok", "ab%d" % len(rt.items))
                if inn:
                    with Lease(9, False):
                        y = yield HItem(rt, 1 - kkv, a, "ok", "ab%d" % len(rt.items))
                else:
                    y = yield HItem(rt, 1 - kkv, a, "ok", "ab%d" % len(rt.items))
        else:
            x = yield HItem(rt, kkv, a, "ok", "ab%d" % len(rt.items))
            y = x
        return [tag, a, x, y]

    @deduplicate()
    @A()
    def dd(a):
        return (yield from body("f", a))

    class K(object):
        @deduplicate()
        @A()
        def m(self, a):
            return (yield from body("m", a))

        @deduplicate()
        @A()
        @staticmethod
        def s(a):
            return (yield from body("s", a))

    kobj = K()
    fn = [dd, kobj.m, kobj.s][calv]
    res = {}

    @A()
    def worker(i):
        try:
            res[i] = ("v", (yield fn.asynq(av)))
        except prog.E as e:
            res[i] = ("e", e)

    @A()
    def root():
        yield [worker.asynq(i) for i in range(nc)]

    try:
        rt.attach()
        try:
            root()
        except Exception as e:
            prog.reraise_control(e)
            rec.wit("root_failed")
        if count[0] != 1:
            return rec.fail("%d callers of one key: the body ran %d times" % (nc, count[0]))
        if asynq.tools.DeduplicateDecorator.tasks:
            return rec.fail("after the only execution ended abnormally (context resume #%d raised%s) the deduplication "
                            "table still holds its task: %d entries" % (
                                kv, ", closing the body raised too" if pt else "",
                                len(asynq.tools.DeduplicateDecorator.tasks)))
        lease_on[0] = False
        t = fn.asynq(av)
        if t.is_computed():
            return rec.fail("the call after the abnormal end returned a finished task")
        v = t.value()
        if count[0] != 2 or v[1] != av:
            return rec.fail("the call after the abnormal end did not run the body again (runs %d, value %r)" % (count[0], v))
        if asynq.tools.DeduplicateDecorator.tasks:
            return rec.fail("deduplication table not empty at the end")
        rec.wit("paths")
        if any(o[0] == "e" for o in res.values()):
            rec.wit("callers_saw_error")
        rec.done(("c12ab", calv, nc, kv, pt, inn, kkv), True)
        return True
    finally:
        asynq.tools.DeduplicateDecorator.tasks.clear()
        prog.detach(rt)
        prog.reset_globals()


def f_xthread(cal, where, sp, a, b, again_sp):
    """a task created on one thread and completed on another one: the creating thread's key is free afterwards;
    meanwhile the other thread's own call with the same arguments is a different execution (the thread is part
    of the key)"""
    import threading
    calv, wv, spv, av, bv, asv = conc(cal, 4), conc(where, 4), conc(sp, 5), conc(a, 2), conc(b, 2), conc(again_sp, 5)
    rec.clear_fail()
    prog.reset_globals()
    count = {}

    def body(tag, a, b, c):
        count[(tag, a, b, c)] = count.get((tag, a, b, c), 0) + 1
        x = yield asynq.ConstFuture(a)
        return [tag, x, b, c]

    @deduplicate()
    @A()
    def dd(a, b=1, *, c=2):
        return (yield from body("f", a, b, c))

    class K(object):
        @deduplicate()
        @A()
        def m(self, a, b=1, *, c=2):
            return (yield from body("m", a, b, c))

        @deduplicate()
        @A()
        @staticmethod
        def s(a, b=1, *, c=2):
            return (yield from body("s", a, b, c))

    k1, k2 = K(), K()
    fn = [dd, k1.m, k1.s, k2.m][calv]
    tag = ["f", "m", "s", "m"][calv]
    key = (tag, av, bv, 2)
    box = {}

    def on_thread(thunk):
        def run():
            try:
                box["r"] = ("v", thunk())
            except BaseException as e:      # noqa
                box["r"] = ("e", e)
        th = threading.Thread(target=run)
        th.start()
        th.join()
        r = box.pop("r")
        if r[0] == "e":
            raise r[1]
        return r[1]

    try:
        if wv == 3:
            # the call is created on a short-lived thread that ends without ever driving it; a thread started
            # afterwards (the OS is free to hand it the dead thread's identifier) makes the same call: the thread
            # is part of the key, so it gets an execution of its own.  A few rounds, since identifier reuse is
            # at the OS's discretion.
            made = {}

            def creator():
                made["t"] = spell(fn.asynq, spv, av, bv, 2)

            def later():
                t2 = spell(fn.asynq, spv, av, bv, 2)
                return t2, t2.value()
            for rnd in range(6):
                on_thread(creator)
                before = count.get(key, 0)
                t2, v2 = on_thread(later)
                if t2 is made["t"]:
                    return rec.fail("a call made on a new thread received the in-flight task that an earlier, finished "
                                    "thread had created for key %r (round %d)" % (key, rnd))
                if v2 != [tag, av, bv, 2] or count.get(key, 0) != before + 1:
                    return rec.fail("call on a new thread after an abandoned call of a finished thread: value %r, body "
                                    "runs %d for key %r" % (v2, count.get(key, 0) - before, key))
            rec.wit("paths")
            rec.done(("c12xt", calv, wv, spv, av, bv, asv), True)
            return True
        t = spell(fn.asynq, spv, av, bv, 2)
        if wv == 0:
            v = t.value()
        elif wv == 1:
            v = on_thread(t.value)
        else:
            # the other thread first makes its own call with the same arguments, then completes ours
            def other():
                t2 = spell(fn.asynq, spv, av, bv, 2)
                if t2 is t:
                    raise AssertionError("shared across threads")
                v2 = t2.value()
                return t.value(), v2
            try:
                v, v2 = on_thread(other)
            except AssertionError:
                return rec.fail("a call on another thread received the task created for this thread")
            if v2 is v:
                return rec.fail("executions of two threads returned the same object")
        if v != [tag, av, bv, 2]:
            return rec.fail("value %r for key %r" % (v, key))
        t3 = spell(fn.asynq, asv, av, bv, 2)
        if t3 is t or t3.is_computed():
            return rec.fail("the task for key %r was created on this thread and completed %s; the next call on this "
                            "thread returned the finished task instead of running the body again" % (
                                key, ["here", "on another thread", "on another thread"][wv]))
        before = count.get(key, 0)
        t3.value()
        if count.get(key, 0) != before + 1:
            return rec.fail("next call for key %r did not run the body" % (key,))
        if asynq.tools.DeduplicateDecorator.tasks:
            return rec.fail("deduplication table still holds %d entries after everything completed" % len(
                asynq.tools.DeduplicateDecorator.tasks))
        rec.wit("paths")
        rec.done(("c12xt", calv, wv, spv, av, bv, asv), True)
        return True
    finally:
        asynq.tools.DeduplicateDecorator.tasks.clear()
        prog.reset_globals()


PAIRS = [(0, 0), (0, 4), (1, 1), (1, 2), (3, 3), (0, 3), (2, 2), (4, 4)]


def mk2():
    """two callers; callee pair / spellings / arguments / delays / dirty symbolic"""
    inner = mk(2)

    def f(pair, sp0, sp1, a1, b1, dl0, dl1, dirty1, fk, again, p0, p1, ho, selfrec):
        c0, c1 = PAIRS[conc(pair, len(PAIRS))]
        return inner(c0, sp0, 0, 1, 0, dl0, False,
                     c1, sp1, a1, b1, 0, dl1, dirty1,
                     p0, p1, ho, fk, again, selfrec)
    return f


MK2_PARAMS = [I("pair", 0, len(PAIRS) - 1), I("sp0", 0, 4), I("sp1", 0, 4), I("a1", 0, 1), I("b1", 0, 1),
              I("dl0", 0, 2), I("dl1", 0, 2), B("dirty1"), I("fk", 0, 2), B("again"), I("p0"), I("p1"), I("ho", 0, 1),
              B("selfrec")]


def conds(tier):
    q = tier == "quick"
    out = []
    pre = ["sp0 in (0, 3)", "fk <= 1", "ho == 0", "again", "(not selfrec) or (fk == 0 and not dirty1)"] if q else \
        ["(not selfrec) or (fk == 0 and not dirty1)"]
    out.append(Cond("two", mk2(), MK2_PARAMS, pin=3, builds=("C",), budget=300 if q else 1800,
                    family="two callers: callee pair x spellings x arguments x delays x dirty, symbolic schedule",
                    encodes=ENC, extra_pre=pre,
                    shard_filter=(lambda pair, sp0, sp1: sp0 in (0, 3)) if q else None))
    if q:
        ps = []
        for i in range(3):
            ps += [I("cal%d" % i, 0, 0), I("sp%d" % i, 0, 0), I("a%d" % i, 1, 1), I("b%d" % i, 1, 1),
                   I("c%d" % i, 0, 0), I("dl%d" % i, 0, 2), B("dirty%d" % i)]
        ps += [I("p0"), I("p1"), I("ho", 0, 1), I("fk", 0, 1), B("again")]
        out.append(Cond("three_q", mk(3), ps, pin=6, builds=("C",), budget=200,
                        family="three callers of one key: delays x dirty() flags, symbolic schedule (a later caller "
                               "after dirty() + re-creation)", encodes=ENC))
    out.append(Cond("abnormal", f_abnormal, [I("cal", 0, 2), I("ncallers", 0, 1), I("k", 0, 1), B("pause_too"), B("inner"),
                                             I("kk", 0, 1), I("a", 0, 1), I("p0"), I("p1")], pin=2, builds=("C", "P"),
                    budget=100, family="the only execution ends abnormally (a context of the body fails to resume "
                    "after a flush; closing the suspended body may raise too): key free afterwards", encodes=ENC))
    out.append(Cond("xthread", f_xthread, [I("cal", 0, 3), I("where", 0, 3), I("sp", 0, 4), I("a", 0, 1), I("b", 0, 1),
                                           I("again_sp", 0, 4)], pin=2, builds=("C",), budget=100,
                    family="task created on one thread, completed on the same / another thread (which may make its own "
                           "call with the same arguments first): key free afterwards; or created on a thread that ends "
                           "without driving it, then the same call on a later thread (thread identifiers may be reused)", encodes=ENC))
    if not q:
        ps = [I("cal0", 0, 1), I("sp0", 0, 1), I("a0", 1, 1), I("b0", 1, 1), I("c0", 0, 0), I("dl0", 0, 2), B("dirty0")]
        for i in (1, 2):
            ps += [I("cal%d" % i, 0, 1), I("sp%d" % i, 0, 0), I("a%d" % i, 1, 1), I("b%d" % i, 1, 1),
                   I("c%d" % i, 0, 0), I("dl%d" % i, 0, 2), B("dirty%d" % i)]
        ps += [I("p0"), I("p1"), I("ho", 0, 1), I("fk", 0, 1), B("again")]
        out.append(Cond("three", mk(3), ps, pin=4, builds=("C",), budget=3000,
                        family="three callers (function / method), delays, dirty", encodes=ENC))
        out.append(Cond("twoP", mk2(), MK2_PARAMS, pin=3, builds=("P",), budget=1800,
                        family="two callers on the pure build", encodes=ENC,
                        extra_pre=["sp0 in (0, 3)", "fk <= 1", "(not selfrec) or (fk == 0 and not dirty1)"],
                        shard_filter=lambda pair, sp0, sp1: sp0 in (0, 3)))
    return out
