"""C12: deduplicate - one in-flight execution per key, shared by all callers."""
import asynq
from asynq import asynq as A
from asynq.tools import deduplicate
from vlib.spec import Cond, I, B
from vlib import rec
from harness.fam import conc, concb
from harness import prog
from harness.prog import RT, HItem

ENC = ["asynq/tools.py: DeduplicateDecorator.asynq/cache_key/dirty/__init__, DeduplicateDecoratorBinder, "
       "deduplicate (default keygetter via qcore.caching.get_args_tuple)",
       "asynq/decorators.py: AsyncDecorator, AsyncDecoratorBinder",
       "asynq/scheduler.py + asynq/async_task.py (the callers are real tasks blocked on real batches)"]

NCALL = 5       # function, method on A, method on B, staticmethod, a different function


def spell(f, sp, a, b, c):
    """All spellings denote the arguments (a, b, c); defaults are b=1, c=2 (only used when equal)."""
    if sp == 0:
        return f(a, b, c=c)
    if sp == 1:
        return f(a=a, b=b, c=c)
    if sp == 2:
        return f(a, c=c, b=b)
    if sp == 3 and b == 1 and c == 2:
        return f(a)
    if sp == 4 and c == 2:
        return f(a, b)
    return f(a, b, c=c)


def make_subjects(rt, count, failkey, selfrec=None):
    recstate = {"done": False}

    def body(tag, a, b, c):
        count[(tag, a, b, c)] = count.get((tag, a, b, c), 0) + 1
        if selfrec is not None and selfrec == (tag, a, b, c) and not recstate["done"]:
            # the body calls itself synchronously with the same key (the documented escape hatch: the nested
            # call gets a private task); afterwards the outer execution is still the in-flight one
            recstate["done"] = True
            recstate["inner"] = subs_box[0][tags_box[0].index(tag)].asynq(a, b, c=c).value()
        x = yield HItem(rt, 0, a, "ok", "dd%d" % len(rt.items))
        y = yield HItem(rt, 1, b, "ok", "dd%d" % len(rt.items))
        if failkey == (a, b, c):
            raise prog.E(("dd", tag, a, b, c))
        return [tag, a, b, c, x, y]        # a fresh list: identity shows sharing

    @deduplicate()
    @A()
    def dd(a, b=1, *, c=2):
        return (yield from body("f", a, b, c))

    @deduplicate()
    @A()
    def dd2(a, b=1, *, c=2):
        return (yield from body("g", a, b, c))

    class K(object):
        def __init__(self, t):
            self.t = t

        @deduplicate()
        @A()
        def m(self, a, b=1, *, c=2):
            return (yield from body("m%d" % self.t, a, b, c))

        @deduplicate()
        @A()
        @staticmethod
        def s(a, b=1, *, c=2):
            return (yield from body("s", a, b, c))

    ka, kb = K(0), K(1)
    subs_box[0] = [dd, ka.m, kb.m, ka.s, dd2]
    tags_box[0] = ["f", "m0", "m1", "s", "g"]
    return subs_box[0], tags_box[0]


subs_box = [None]
tags_box = [None]


def mk(nw=3):
    def f(*p):
        # per worker: callee, spelling, a, b, c, delay kind (0 none, 1 wait for kind-0 item first, 2 kind-1), dirty
        W = []
        for i in range(nw):
            cal, sp, a, b, c, dl, dirty = p[7 * i:7 * i + 7]
            W.append((conc(cal, NCALL), conc(sp, 5), conc(a, 2), conc(b, 2), 2 + conc(c, 2), conc(dl, 3), concb(dirty)))
        p0, p1, ho, fk, again = p[7 * nw:7 * nw + 5]
        selfrec_on = (len(p) > 7 * nw + 5) and concb(p[7 * nw + 5])
        rec.clear_fail()
        prog.reset_globals()
        rt = RT(nkinds=2, prio=[p0, p1], hash_order=conc(ho, 2))
        count = {}
        fkv = conc(fk, 3)
        failkey = None if fkv == 0 else (W[0][2], W[0][3], W[0][4]) if fkv == 1 else (1, 1, 2)
        tags0 = ["f", "m0", "m1", "s", "g"]
        selfrec = (tags0[W[0][0]], W[0][2], W[0][3], W[0][4]) if selfrec_on else None
        subs, tags = make_subjects(rt, count, failkey, selfrec)
        model = {}          # key -> task in flight
        created = {}        # key -> list of distinct tasks
        problems = []
        results = {}

        def do_call(i, w):
            cal, sp, a, b, c, dl, dirty = w
            key = (tags[cal], a, b, c)
            fn = subs[cal]
            if dirty:
                spell(fn.dirty, sp, a, b, c)
                model.pop(key, None)
            prev = model.get(key)
            t = spell(fn.asynq, sp, a, b, c)
            if prev is not None and not prev.is_computed():
                if t is not prev:
                    problems.append("worker %d: call with key %r while an execution is in flight returned a "
                                    "different task" % (i, key))
            else:
                if prev is not None and t is prev:
                    problems.append("worker %d: call with key %r after completion returned the finished task" % (i, key))
                for k2, t2 in list(model.items()):
                    if k2 != key and t2 is t:
                        problems.append("worker %d: key %r shares a task with different key %r" % (i, key, k2))
                if not any(t is x for x in created.get(key, [])):
                    created.setdefault(key, []).append(t)
                model[key] = t
            return key, t

        @A()
        def worker(i):
            w = W[i]
            if w[5] == 1:
                yield HItem(rt, 0, 100 + i, "ok", "w%d" % i)
            elif w[5] == 2:
                yield HItem(rt, 1, 100 + i, "ok", "w%d" % i)
            key, t = do_call(i, w)
            try:
                r = yield t
                results[i] = (key, t, ("v", r))
            except prog.E as e:
                results[i] = (key, t, ("e", e))

        @A()
        def root():
            yield [worker.asynq(i) for i in range(nw)]

        try:
            rt.attach()
            try:
                root()
            except Exception as e:
                prog.reraise_control(e)
                return rec.fail("computation failed: %r" % (e,))
            if problems:
                return rec.fail(problems[0])
            # every caller of one task received the same value / error object, with the right content
            for i, (key, t, out) in results.items():
                for j, (key2, t2, out2) in results.items():
                    if t is t2 and out[1] is not out2[1]:
                        return rec.fail("callers %d and %d of the same task received different objects" % (i, j))
                    if t is not t2 and key == key2 and out[0] == "v" and out[1] is out2[1]:
                        return rec.fail("different executions returned the same object")
                exp_fail = failkey == key[1:]
                if exp_fail != (out[0] == "e"):
                    return rec.fail("caller %d with key %r got %r" % (i, key, out))
                if out[0] == "v":
                    r = out[1]
                    if r[0] != key[0] or r[1] != key[1] or r[2] != key[2] or r[3] != key[3]:
                        return rec.fail("caller %d with key %r received another call's value %r" % (i, key, r))
            # the body ran once per distinct task created for the key
            for key, ts in created.items():
                extra = 1 if (selfrec is not None and key == selfrec) else 0
                if count.get(key, 0) != len(ts) + extra:
                    return rec.fail("body for key %r ran %d times for %d created executions" % (key, count.get(key, 0), len(ts)))
            # after completion the next call runs the body again
            if concb(again):
                w = W[0]
                key = (tags[w[0]], w[2], w[3], w[4])
                before = count.get(key, 0)
                t = spell(subs[w[0]].asynq, w[1], w[2], w[3], w[4])
                if any(t is x for x in created.get(key, [])):
                    return rec.fail("call after completion returned the completed task for key %r" % (key,))
                try:
                    t.value()
                except prog.E:
                    pass
                if count.get(key, 0) != before + 1:
                    return rec.fail("call after completion did not run the body again for key %r" % (key,))
            if asynq.tools.DeduplicateDecorator.tasks:
                return rec.fail("deduplication table still holds %d entries after everything completed" % len(
                    asynq.tools.DeduplicateDecorator.tasks))
            rec.wit("paths")
            if any(len(ts) > 0 and sum(1 for r in results.values() if r[0] == key) > len(ts) for key, ts in created.items()):
                rec.wit("paths_with_shared_execution")
            rec.done(("c12", tuple(W), fkv, concb(again)), True)
            return True
        finally:
            prog.detach(rt)
            prog.reset_globals()
    return f


PAIRS = [(0, 0), (0, 4), (1, 1), (1, 2), (3, 3), (0, 3), (2, 2), (4, 4)]


def mk2():
    """two callers; callee pair / spellings / arguments / delays / dirty symbolic"""
    inner = mk(2)

    def f(pair, sp0, sp1, a1, b1, dl0, dl1, dirty1, fk, again, p0, p1, ho, selfrec):
        c0, c1 = PAIRS[conc(pair, len(PAIRS))]
        return inner(c0, sp0, 0, 1, 0, dl0, False,
                     c1, sp1, a1, b1, 0, dl1, dirty1,
                     p0, p1, ho, fk, again, selfrec)
    return f


MK2_PARAMS = [I("pair", 0, len(PAIRS) - 1), I("sp0", 0, 4), I("sp1", 0, 4), I("a1", 0, 1), I("b1", 0, 1),
              I("dl0", 0, 2), I("dl1", 0, 2), B("dirty1"), I("fk", 0, 2), B("again"), I("p0"), I("p1"), I("ho", 0, 1),
              B("selfrec")]


def conds(tier):
    q = tier == "quick"
    out = []
    pre = ["sp0 in (0, 3)", "fk <= 1", "ho == 0", "again", "(not selfrec) or (fk == 0 and not dirty1)"] if q else \
        ["(not selfrec) or (fk == 0 and not dirty1)"]
    out.append(Cond("two", mk2(), MK2_PARAMS, pin=3, builds=("C",), budget=300 if q else 1800,
                    family="two callers: callee pair x spellings x arguments x delays x dirty, symbolic schedule",
                    encodes=ENC, extra_pre=pre,
                    shard_filter=(lambda pair, sp0, sp1: sp0 in (0, 3)) if q else None))
    if q:
        ps = []
        for i in range(3):
            ps += [I("cal%d" % i, 0, 0), I("sp%d" % i, 0, 0), I("a%d" % i, 1, 1), I("b%d" % i, 1, 1),
                   I("c%d" % i, 0, 0), I("dl%d" % i, 0, 2), B("dirty%d" % i)]
        ps += [I("p0"), I("p1"), I("ho", 0, 1), I("fk", 0, 1), B("again")]
        out.append(Cond("three_q", mk(3), ps, pin=6, builds=("C",), budget=200,
                        family="three callers of one key: delays x dirty() flags, symbolic schedule (a later caller "
                               "after dirty() + re-creation)", encodes=ENC))
    if not q:
        ps = [I("cal0", 0, 1), I("sp0", 0, 1), I("a0", 1, 1), I("b0", 1, 1), I("c0", 0, 0), I("dl0", 0, 2), B("dirty0")]
        for i in (1, 2):
            ps += [I("cal%d" % i, 0, 1), I("sp%d" % i, 0, 0), I("a%d" % i, 1, 1), I("b%d" % i, 1, 1),
                   I("c%d" % i, 0, 0), I("dl%d" % i, 0, 2), B("dirty%d" % i)]
        ps += [I("p0"), I("p1"), I("ho", 0, 1), I("fk", 0, 1), B("again")]
        out.append(Cond("three", mk(3), ps, pin=4, builds=("C",), budget=3000,
                        family="three callers (function / method), delays, dirty", encodes=ENC))
        out.append(Cond("twoP", mk2(), MK2_PARAMS, pin=3, builds=("P",), budget=1800,
                        family="two callers on the pure build", encodes=ENC,
                        extra_pre=["sp0 in (0, 3)", "fk <= 1", "(not selfrec) or (fk == 0 and not dirty1)"],
                        shard_filter=lambda pair, sp0, sp1: sp0 in (0, 3)))
    return out
