"""C20 = (a) F-OPT program-level conditions (CrossHair) + (b) C-typed slot range analysis (SMT-LIB, three solvers)."""
import hashlib
import json
import os

from vlib import driver
from harness import meta

VERIF = os.path.dirname(os.path.dirname(os.path.abspath(__file__)))


def slots_hook(builds, pid, tier):
    from harness import slots
    rep, viol = slots.analyse(builds["C"])
    known = driver.load_known(pid)
    out = []
    for v in viol:
        k = None
        for e in known:
            if e.get("cond") == "typed-slot" and e.get("site") == "%s %s" % (v["where"].split(":")[0], v["target"]):
                k = e
        if k is not None:
            print("KNOWN-FINDING: property=%s %s" % (pid, k["what"]))
            continue
        rdir = os.path.join(VERIF, "replays", pid)
        os.makedirs(rdir, exist_ok=True)
        dig = hashlib.md5(json.dumps([v["where"], v["target"]]).encode()).hexdigest()[:10]
        path = os.path.join(rdir, "typed-slot-%s.json" % dig)
        with open(path, "w") as f:
            json.dump({"property": pid, "kind": "typed-slot", "site": v, "source_digest": builds["digest"]}, f, indent=1)
        out.append({"kind": "violation", "cond": "typed-slot %s" % v["where"], "args": v.get("model"),
                    "replay": path, "build": "C",
                    "detail": "C-typed slot %s (%s) can leave its range: %s = %s with clock readings %s; on the compiled "
                              "build COLLECT_PERF_STATS turns %r into %r" % (
                                  v["target"], v["ctype"], v["kind"], v["expr"], v["replay"].get("clock_readings"),
                                  v["replay"].get("default"), v["replay"].get("with_COLLECT_PERF_STATS"))})
    n_safe = sum(1 for s in rep["sites"] if s["status"].startswith("range-safe"))
    n_unenc = sum(1 for s in rep["sites"] if s["status"] == "unencodable")
    rep["summary"] = {"sites": len(rep["sites"]), "range_safe": n_safe, "unencodable": n_unenc,
                      "violations": len(viol)}
    return {"typed_slots": rep}, out


def main(pid, tier):
    info = meta.PROPS[pid]
    return driver.check_property(pid, tier, module="harness.c20", level=info.get("level", "other"),
                                 assumptions=info.get("assumptions", ()), explanation=info.get("explanation", ""),
                                 pre_hook=slots_hook)
