"""C11: batch lifecycle - pending -> flushed | cancelled, once; no item left pending (API histories
against an explicit reference state machine), on BatchBase subclasses and on DebugBatch."""
import asynq
from asynq import batching as BT
from asynq import futures as F
from vlib.spec import Cond, I, B
from vlib import rec
from harness.fam import conc
from harness import prog

ENC = ["asynq/batching.py: BatchBase.flush/cancel/_compute/_computed/is_flushed/is_cancelled/is_empty/"
       "get_priority/__str__/dump, BatchItemBase.__init__/_compute, DebugBatch/_DebugBatchItem, "
       "_try_switch_active_batch", "asynq/futures.py: FutureBase.value/error/set_value/set_error/_computed"]

OPS = ["add", "flush", "cancel", "cancel_err", "item0.value", "batch.value", "batch.error", "queries", "str",
       "lastitem.value"]
PLANS = ["set_all", "skip_first", "set_none", "item_err_first", "raise_exc", "raise_base", "new_item_in_flush",
         "set_then_raise", "cancel_self_in_flush",
         "raise_exc, and the _cancel() hook answers the first unanswered item itself"]


class HB(asynq.BatchBase):
    def __init__(self, env):
        asynq.BatchBase.__init__(self)
        self.env = env
        self.nflush = 0
        self.order = []
        self.on_computed.subscribe(self._done)

    def _done(self, _):
        # all items must be complete before the batch's completion is announced
        self.order.append(("batch", [BT.BatchItemBase.is_computed(i) for i in self.items_copy()]))

    def items_copy(self):
        return list(self.env["items_of"].get(id(self), []))

    def _try_switch_active_batch(self):
        if self.env["cur"] is self:
            self.env["cur"] = HB(self.env)

    def _cancel(self):
        # the documented hook for discarding a batch: this service tells the first request that is still waiting
        # why it was dropped; the library completes the remaining ones
        if self.env["plan"] == 9:
            for it in self.items:
                if not BT.BatchItemBase.is_computed(it):
                    it.set_error(self.env["cerr"])
                    break

    def _flush(self):
        self.nflush += 1
        env = self.env
        env["active_at_flush"] = env["cur"] is not self
        plan = env["plan"]
        items = list(self.items)
        if plan == 6:
            it = HI(env, env["newv"])
            env["new_item_batch_is_other"] = it.batch is not self
        for i, it in enumerate(items):
            if plan in (0, 6, 7):
                it.set_value(it.v)
            elif plan == 1:
                if i > 0:
                    it.set_value(it.v)
            elif plan == 2:
                pass
            elif plan == 3:
                if i == 0:
                    it.set_error(env["ierr"])
                else:
                    it.set_value(it.v)
            elif plan in (4, 5):
                if i > 0:
                    it.set_value(it.v)
        if plan == 8:
            # the flush body (or a callback it fires) cancels the batch it is flushing, then returns normally
            self.cancel(env["ferr"])
            return
        if plan in (4, 7, 9):
            raise env["ferr"]
        if plan == 5:
            raise env["fbase"]


class HI(asynq.BatchItemBase):
    def __init__(self, env, v):
        b = env["cur"]
        asynq.BatchItemBase.__init__(self, b)
        self.v = v
        env["items_of"].setdefault(id(b), []).append(self)


def expected_item(plan, idx, v, env, how):
    """how: 'flush' | 'cancel' (err) -> ('v', v) | ('e', errobj or 'A')"""
    if plan == 9 and idx == 0:
        return ("e", env["cerr"])       # flush failed or batch cancelled: the hook answered the first item
    if plan == 9:
        return ("e", how[1] if how[0] == "cancel" else env["ferr"])
    if how[0] == "cancel":
        return ("e", how[1])
    if plan in (0, 6):
        return ("v", v)
    if plan == 7:
        return ("v", v)
    if plan == 1:
        return ("v", v) if idx > 0 else ("e", "A")
    if plan == 2:
        return ("e", "A")
    if plan == 3:
        return ("e", env["ierr"]) if idx == 0 else ("v", v)
    if plan == 4:
        return ("v", v) if idx > 0 else ("e", env["ferr"])
    if plan == 5:
        return ("v", v) if idx > 0 else ("e", env["fbase"])
    if plan == 8:
        return ("e", env["ferr"])
    raise AssertionError(plan)


def mk(L, debug_batch=False, plans=None):
    def f(plan, *a):
        if plans is not None:
            plan = plans[conc(plan, len(plans))]
        ops = [conc(a[i], len(OPS)) for i in range(L)]
        vals = list(a[L:2 * L])
        if any(OPS[o] == "str" for o in ops):
            # str/repr format the item values (a symbolic value would be realised per concrete integer):
            # histories that render use fixed item values; all others keep them symbolic
            vals = [10 + j for j in range(L)]
        pl = conc(plan, len(PLANS))
        rec.clear_fail()
        prog.reset_globals()
        env = {"cur": None, "plan": pl, "items_of": {}, "ierr": prog.E("item"), "ferr": prog.E("flush"),
               "fbase": prog.BE("flushbase"), "newv": vals[0] + 77, "cerr": prog.E("dropped")}
        try:
            if debug_batch:
                if pl not in (0,):
                    return True
                return run_debug(ops, vals)
            env["cur"] = HB(env)
            b = env["cur"]
            items = []
            state = "pending"       # pending | flushed | cancelled
            how = None
            berr = None
            for i, op in enumerate(ops):
                name = OPS[op]
                desc = "plan %s ops %s: op #%d %s" % (PLANS[pl], [OPS[o] for o in ops], i, name)
                if name == "add":
                    if state == "pending":
                        it = HI(env, vals[i])
                        if it.batch is not b:
                            return rec.fail(desc + ": item joined another batch while its batch was pending")
                        items.append(it)
                    else:
                        # the active batch was switched: a new item must join a fresh batch, and an item
                        # cannot be added to the finished batch
                        it = HI(env, vals[i])
                        if it.batch is b:
                            return rec.fail(desc + ": item was added to a finished batch")
                        try:
                            asynq.BatchItemBase(b)
                            return rec.fail(desc + ": BatchItemBase(finished batch) did not raise")
                        except AssertionError:
                            pass
                elif name == "flush":
                    if state == "pending":
                        try:
                            b.flush()
                        except Exception as e:
                            prog.reraise_control(e)
                            return rec.fail(desc + ": flush() raised %r for a failing flush body" % (e,))
                        state = "flushed"
                        how = ("flush",)
                        berr = {4: env["ferr"], 5: env["fbase"], 7: env["ferr"], 8: env["ferr"], 9: env["ferr"]}.get(pl)
                        if berr is not None:
                            state = "cancelled"
                    else:
                        try:
                            b.flush()
                            return rec.fail(desc + ": second flush() did not raise BatchingError")
                        except BT.BatchingError:
                            pass
                elif name in ("cancel", "cancel_err"):
                    err = prog.E("cancel") if name == "cancel_err" else None
                    try:
                        if err is None:
                            b.cancel()
                        else:
                            b.cancel(err)
                    except Exception as e:
                        prog.reraise_control(e)
                        return rec.fail(desc + ": cancel() raised %r" % (e,))
                    if state == "pending":
                        state = "cancelled"
                        berr = err if err is not None else "BCE"
                        how = ("cancel", berr)
                elif name in ("item0.value", "lastitem.value"):
                    if not items:
                        continue
                    idx = 0 if name == "item0.value" else len(items) - 1
                    it = items[idx]
                    if state == "pending":
                        state = "flushed"
                        how = ("flush",)
                        berr = {4: env["ferr"], 5: env["fbase"], 7: env["ferr"], 8: env["ferr"], 9: env["ferr"]}.get(pl)
                        if berr is not None:
                            state = "cancelled"
                    exp = expected_item(pl, idx, it.v, env, how)
                    try:
                        got = ("v", it.value())
                    except BaseException as e:
                        prog.reraise_control(e)
                        got = ("e", e)
                    if not item_matches(got, exp):
                        return rec.fail(desc + ": item %d gave %r, expected %r" % (idx, got, exp))
                elif name in ("batch.value", "batch.error"):
                    if state == "pending":
                        state = "flushed"
                        how = ("flush",)
                        berr = {4: env["ferr"], 5: env["fbase"], 7: env["ferr"], 8: env["ferr"], 9: env["ferr"]}.get(pl)
                        if berr is not None:
                            state = "cancelled"
                    try:
                        got = ("v", b.value() if name == "batch.value" else b.error())
                    except BaseException as e:
                        prog.reraise_control(e)
                        got = ("e", e)
                    if name == "batch.error":
                        if berr is None:
                            ok = got == ("v", None)
                        elif berr == "BCE":
                            ok = got[0] == "v" and isinstance(got[1], BT.BatchCancelledError)
                        else:
                            ok = got[0] == "v" and got[1] is berr
                    else:
                        if berr is None:
                            ok = got == ("v", None)
                        elif berr == "BCE":
                            ok = got[0] == "e" and isinstance(got[1], BT.BatchCancelledError)
                        else:
                            ok = got[0] == "e" and got[1] is berr
                    if not ok:
                        return rec.fail(desc + ": gave %r, batch error expected %r" % (got, berr))
                elif name == "queries":
                    q = (b.is_flushed(), b.is_cancelled(), b.is_empty())
                    exp_fl = state != "pending"
                    exp_ca = state == "cancelled"
                    if q[0] != exp_fl or q[1] != exp_ca:
                        return rec.fail(desc + ": is_flushed/is_cancelled = %r in state %s" % (q[:2], state))
                    if state == "pending" and q[2] != (len(items) == 0):
                        return rec.fail(desc + ": is_empty = %r with %d items" % (q[2], len(items)))
                    if state == "pending":
                        pr = b.get_priority()
                        if pr != (0, len(items)):
                            return rec.fail(desc + ": default priority %r with %d items" % (pr, len(items)))
                elif name == "str":
                    try:
                        str(b)
                        repr(b)
                        for it in items[:1]:
                            str(it)
                            repr(it)
                    except Exception as e:
                        prog.reraise_control(e)
                        return rec.fail(desc + ": str/repr raised %r" % (e,))
                # ---- invariants after every operation
                if b.nflush > 1:
                    return rec.fail(desc + ": flush body ran %d times" % b.nflush)
                if state != "pending":
                    for j, it in enumerate(items):
                        if not BT.BatchItemBase.is_computed(it):
                            return rec.fail(desc + ": item %d still pending after its batch finished" % j)
                    if b.order and not all(b.order[0][1]):
                        return rec.fail(desc + ": batch completion announced before all items were complete")
                    if b.nflush == 1 and not env.get("active_at_flush"):
                        return rec.fail(desc + ": the batch was still the active batch while its flush body ran")
                    if pl == 6 and b.nflush == 1 and not env.get("new_item_batch_is_other"):
                        return rec.fail(desc + ": a request created during the flush joined the flushing batch")
                    # every item holds exactly what the lifecycle says
                    for j, it in enumerate(items):
                        exp = expected_item(pl, j, it.v, env, how)
                        got = ("e", it._error) if it._error is not None else ("v", it._value)
                        if not item_matches(got, exp):
                            return rec.fail(desc + ": item %d holds %r, expected %r" % (j, got, exp))
            rec.wit("paths")
            if state != "pending":
                rec.wit("finished")
            rec.done(("c11", pl, tuple(ops)), state != "pending")
            return True
        finally:
            prog.reset_globals()
    return f


def item_matches(got, exp):
    if exp[0] == "v":
        return got[0] == "v" and bool(got[1] == exp[1])
    if got[0] != "e":
        return False
    if exp[1] == "A":
        return isinstance(got[1], AssertionError)
    if exp[1] == "BCE":
        return isinstance(got[1], BT.BatchCancelledError)
    return got[1] is exp[1]


def run_debug(ops, vals):
    """Same history on the built-in DebugBatch / DebugBatchItem (always sets every item)."""
    st = BT._debug_batch_state
    items = []
    b = None
    state = "pending"
    berr = None
    for i, op in enumerate(ops):
        name = OPS[op]
        desc = "DebugBatch ops %s: op #%d %s" % ([OPS[o] for o in ops], i, name)
        if name == "add":
            it = BT.DebugBatchItem("t", vals[i])
            if b is None:
                b = it.batch
            if state == "pending":
                if it.batch is not b:
                    return rec.fail(desc + ": item joined another batch while its batch was pending")
                items.append(it)
            elif it.batch is b:
                return rec.fail(desc + ": item was added to a finished DebugBatch")
        elif b is None:
            continue
        elif name == "flush":
            if state == "pending":
                b.flush()
                state = "flushed"
            else:
                try:
                    b.flush()
                    return rec.fail(desc + ": second flush() did not raise BatchingError")
                except BT.BatchingError:
                    pass
        elif name in ("cancel", "cancel_err"):
            err = prog.E("cancel") if name == "cancel_err" else None
            if err is None:
                b.cancel()
            else:
                b.cancel(err)
            if state == "pending":
                state = "cancelled"
                berr = err if err is not None else "BCE"
        elif name in ("item0.value", "lastitem.value", "batch.value", "batch.error"):
            if state == "pending":
                state = "flushed"
            try:
                if name == "item0.value":
                    got = ("v", items[0].value())
                elif name == "lastitem.value":
                    got = ("v", items[-1].value())
                elif name == "batch.value":
                    got = ("v", b.value())
                else:
                    got = ("v", b.error())
            except Exception as e:
                prog.reraise_control(e)
                got = ("e", e)
            if name.endswith("item.value") or name == "item0.value":
                idx = 0 if name == "item0.value" else len(items) - 1
                exp = ("v", items[idx]._result) if state == "flushed" else ("e", berr)
                if not item_matches(got, exp):
                    return rec.fail(desc + ": gave %r expected %r" % (got, exp))
        elif name == "queries":
            if b.is_flushed() != (state != "pending") or b.is_cancelled() != (state == "cancelled"):
                return rec.fail(desc + ": state queries wrong in %s" % state)
        elif name == "str":
            str(b), repr(b)
        if state != "pending":
            for it in items:
                if not it.is_computed():
                    return rec.fail(desc + ": DebugBatchItem pending after its batch finished")
            if st.batches.get("t") is b:
                return rec.fail(desc + ": finished DebugBatch is still the active batch")
    rec.wit("paths")
    rec.done(("c11d", tuple(ops)), state != "pending")
    return True


def params(L, nplans=None):
    return [I("plan", 0, (nplans or len(PLANS)) - 1)] + [I("o%d" % i, 0, len(OPS) - 1) for i in range(L)] + [I("v%d" % i) for i in range(L)]


def conds(tier):
    q = tier == "quick"
    if q:
        P4 = [0, 1, 4, 6, 8, 9]
        return [Cond("hist4", mk(4, plans=P4), params(4, len(P4)), pin=2, builds=("C",), budget=300,
                     family="batch API histories of length 4 x flush-body plans %s" % [PLANS[i] for i in P4], encodes=ENC),
                Cond("hist3", mk(3), params(3), pin=2, builds=("C", "P"), budget=300,
                     family="batch API histories of length 3 x all %d flush-body plans (both builds)" % len(PLANS),
                     encodes=ENC),
                Cond("debugbatch", mk(4, True), [I("plan", 0, 0)] + params(4)[1:], pin=2, builds=("C",), budget=200,
                     family="same histories on DebugBatch/DebugBatchItem", encodes=ENC)]
    P5 = [0, 8]
    return [Cond("hist5", mk(5, plans=P5), params(5, len(P5)), pin=3, builds=("C",), budget=3000,
                 family="batch API histories of length 5 x plans %s" % [PLANS[i] for i in P5], encodes=ENC),
            Cond("hist4", mk(4), params(4), pin=2, builds=("C", "P"), budget=1200,
                 family="batch API histories of length 4 x all %d plans (both builds)" % len(PLANS), encodes=ENC),
            Cond("debugbatch", mk(4, True), [I("plan", 0, 0)] + params(4)[1:], pin=2, builds=("C", "P"), budget=900,
                 family="same histories on DebugBatch/DebugBatchItem", encodes=ENC)]
