"""One-step lemmas from arbitrary valid states (pure build: the functions are cdef in the compiled build)."""
import asynq
from asynq import scheduler as S
from asynq import async_task as AT
from asynq import futures as F
from vlib import rec
from vlib.spec import Cond, I, B
from harness.fam import conc, concb, arity
from harness.prog import TEMPLATES, shape, reset_globals


class LB(asynq.BatchBase):
    def __init__(self, h, prio, nitems, flushed):
        asynq.BatchBase.__init__(self)
        self._h = h
        self.prio = prio
        for _ in range(nitems):
            LI(self)
        if flushed:
            # a batch that somebody else already flushed (e.g. through item.value()) but that is still listed
            self.flush()

    def __hash__(self):
        return self._h

    def __eq__(self, o):
        return self is o

    def _try_switch_active_batch(self):
        pass

    def _flush(self):
        for it in self.items:
            it.set_value(0)

    def get_priority(self):
        return self.prio


class LI(asynq.BatchItemBase):
    pass


def f_select(n, order, *a):
    """arbitrary pending-set state: n batches, each with symbolic item count (0..2), flushed flag, priority;
    `order` permutes the set iteration order.  One call of _select_batch_to_flush()."""
    nn = conc(n, 5)
    rec.clear_fail()
    reset_globals()
    try:
        sched = S.get_scheduler()
        perm = [[0, 1, 2, 3], [3, 2, 1, 0], [1, 3, 0, 2], [2, 0, 3, 1]][conc(order, 4)]
        batches = []
        for i in range(nn):
            cnt, fl, pr = a[3 * i:3 * i + 3]
            b = LB(perm[i], pr, conc(cnt, 3), concb(fl))
            batches.append(b)
        sched._batches = set(batches)
        had_items = [len(b.items) for b in batches]       # flush() clears the items of flushed ones
        sel = sched._select_batch_to_flush()
        live = [b for b in batches if b.items and not b.is_flushed()]
        desc = "pending set %r" % ([(len(b.items), b.is_flushed()) for b in batches],)
        if not live:
            if sel is not None:
                return rec.fail("%s: selected %r although nothing is flushable" % (desc, sel))
        else:
            if sel is None or sel not in live:
                return rec.fail("%s: selected %r, not a non-empty unflushed batch" % (desc, sel))
            for b in live:
                if sel.get_priority() < b.get_priority():
                    return rec.fail("%s: selected batch has lower priority than another pending batch" % desc)
        # side effect: exactly the empty / flushed batches are dropped from the set
        if set(sched._batches) != set(live):
            return rec.fail("%s: after selection the pending set holds %d batches, %d are flushable" % (
                desc, len(sched._batches), len(live)))
        rec.wit("paths")
        if len(live) >= 2:
            rec.wit("paths_with_2+_flushable")
        rec.done(("select", nn, conc(order, 4), tuple((len(b.items), b.is_flushed()) for b in batches)), True)
        return True
    finally:
        reset_globals()


def f_struct(t, k0, k1, k2, k3, v0, v1, v2, v3):
    """unwrap(s) has the shape of s with every future replaced by its value; extract_futures(s, []) is the
    reverse-structure-order list of exactly the futures in s (tuples/lists), dict values in order"""
    rec.clear_fail()
    ks = [conc(k0, 3), conc(k1, 3), conc(k2, 3), conc(k3, 3)]
    vs = [v0, v1, v2, v3]
    n = arity(t)
    for i in range(n, 4):
        if ks[i] != 0:
            return True
    slots, vals, futs = [], [], []
    for i in range(n):
        if ks[i] == 0:
            slots.append(None)
            vals.append(None)
        elif ks[i] == 1:
            f = F.ConstFuture(vs[i])
            slots.append(f)
            vals.append(vs[i])
            futs.append(f)
        else:
            f = F.Future(lambda v=vs[i]: v)
            slots.append(f)
            vals.append(vs[i])
            futs.append(f)
    s = shape(t, slots)
    got = AT.unwrap(s)
    exp = shape(t, vals)
    if type(got) is not type(exp) or got != exp:
        return rec.fail("unwrap(%r) = %r, expected %r" % (s, got, exp))
    ex = AT.extract_futures(s, [])
    if len(ex) != len(futs) or any(x is not y for x, y in zip(sorted(ex, key=id), sorted(futs, key=id))):
        return rec.fail("extract_futures(%r) does not return exactly the futures of the structure" % (s,))
    if t in (2, 3, 4, 14, 16, 17, 19, 1):
        if any(x is not y for x, y in zip(ex, reversed(futs))):
            return rec.fail("extract_futures(%r) is not in reverse written order" % (s,))
    rec.wit("paths")
    rec.done(("struct", t, tuple(ks)), True)
    return True


def select_cond(nmax=4):
    ps = [I("n", 0, nmax), I("order", 0, 3)]
    for i in range(4):
        ps += [I("cnt%d" % i, 0, 2), B("fl%d" % i), I("pr%d" % i)]
    return Cond("select_lemma", f_select, ps, pin=2, builds=("P",), budget=200,
                family="one step of _select_batch_to_flush from an arbitrary pending set (<=4 batches: symbolic item "
                       "counts, flushed flags, priorities, iteration order)",
                encodes=["asynq/scheduler.py: TaskScheduler._select_batch_to_flush (pure build; cdef in the compiled one)"],
                extra_pre=["(n > 3 or (cnt3 == 0 and not fl3 and pr3 == 0)) and (n > 2 or (cnt2 == 0 and not fl2 and pr2 == 0))"
                           " and (n > 1 or (cnt1 == 0 and not fl1 and pr1 == 0)) and (n > 0 or (cnt0 == 0 and not fl0 and pr0 == 0))"])


def struct_cond():
    return Cond("struct_lemma", f_struct,
                [I("t", 0, len(TEMPLATES) - 1)] + [I("k%d" % i, 0, 2) for i in range(4)] + [I("v%d" % i) for i in range(4)],
                pin=1, builds=("P",), budget=100,
                family="unwrap / extract_futures on every structure template x slot kinds (None, ConstFuture, lazy Future)",
                encodes=["asynq/async_task.py: unwrap, extract_futures (pure build)"])
