"""C07: context activations nest; scoped overrides read and restore as in sync code."""
from vlib.spec import Cond, I, B
from harness import core, fam, ctx

P = {"c07", "c07v"}


def conds(tier):
    q = tier == "quick"
    out = []
    out.append(Cond("over3", ctx.mk_over3(P, 3), ctx.over_params(3), pin=2, budget=200, builds=("C", "P"),
                    family="F-CTX three pending overriders of one scoped value", encodes=ctx.ENC_CTX))
    out.append(Cond("over2n", ctx.mk_over3(P, 2, nested=True), ctx.over_params(2), pin=2, budget=200,
                    builds=("C", "P"),
                    family="F-CTX nested overriding tasks", encodes=ctx.ENC_CTX))
    out.append(Cond("ctx2", ctx.mk_ctx2(P, 2, (0, 1, 6, 8), (1, 4, 5, 7, 8, 9, 10, 13, 14), 4), ctx.ctx2_params(2, 4, 9, 4, ho=0 if q else 1), pin=3,
                    budget=200, family="F-CTX sv/attr overrides, exits", encodes=ctx.ENC_CTX))
    out.append(Cond("ctxsync", ctx.mk_ctx2(P, 2, (0, 5, 1), (1, 4, 8), 2), ctx.ctx2_params(2, 3, 3, 2, ho=0), pin=3,
                    budget=200, family="F-CTX x F-REENTRY: overrides entered after synchronous calls", encodes=ctx.ENC_CTX))
    out.append(Cond("shared", ctx.mk_shared(P), ctx.SHARED_PARAMS, pin=3, budget=150, builds=("C", "P"),
                    family="a shared in-flight task with its own override awaited under two different overrides; "
                           "unshared readers see their own awaiter's override", encodes=ctx.ENC_CTX))
    if not q:
        out.append(Cond("over4", ctx.mk_over3(P, 4), ctx.over_params(4), pin=4, budget=900,
                        family="F-CTX four pending overriders", encodes=ctx.ENC_CTX))
        out.append(Cond("ctx3", ctx.mk_ctx2(P, 3, (0, 1, 6, 8), (1, 2, 4, 5, 7, 8, 9, 10, 13, 14), 5), ctx.ctx2_params(3, 4, 10, 5), pin=3,
                        budget=1800, family="F-CTX three steps", encodes=ctx.ENC_CTX))
    return out
