"""Program families (DESIGN.md 4.4): builders that decode selectors into program descriptions.
Shape selectors are made concrete by branching (so z3 enumerates shapes path by path);
data (values, priorities) stays symbolic."""
from harness.prog import *  # noqa: F401,F403
from harness.prog import TEMPLATES


def conc(x, n):
    """Concrete int in [0, n) equal to symbolic x (branching = one solver decision per value)."""
    for i in range(n - 1):
        if x == i:
            return i
    return n - 1


def concb(b):
    return True if b else False


def arity(t):
    return TEMPLATES[t][0]


def chain(name, depth, kind, v, plan="ok"):
    """A task that awaits `depth` items of `kind` one after another."""
    return TaskD(name, SEQ(*[Y(0, ITEM(kind, v + j, plan)) for j in range(depth)]))


def chain_kinds(name, kinds, v):
    return TaskD(name, SEQ(*[Y(0, ITEM(k, v + j)) for j, k in enumerate(kinds)]))


LIST_T = {0: 8, 1: 16, 2: 4, 3: 17, 4: 14}
TUPLE_T = {0: 9, 1: 1, 2: 2, 3: 3, 4: 19}


def tree(depths, kinds, vals, tuple_root=False):
    w = len(depths)
    kids = [TASK(chain("c%d" % i, depths[i], kinds[i], vals[i])) for i in range(w)]
    return TaskD("root", Y((TUPLE_T if tuple_root else LIST_T)[w], *kids))


# ---------------------------------------------------------------------------------------
# slot menus

def plain_task(name, v):
    return TaskD(name, RET(v))


def raising_task(name, tag, after_items=0, kind=0, v=0, base=False):
    return TaskD(name, SEQ(*([Y(0, ITEM(kind, v + j)) for j in range(after_items)] + [RAISE(tag, base)])))


OK_MENU = 8
FAULT_MENU = 21


def menu_slot(sel, i, v, pre=None):
    """Slot number `sel` of the menu for slot position i with (symbolic) value v."""
    if sel == 0:
        return NONE
    if sel == 1:
        return CONST(v)
    if sel == 2:
        return ITEM(0, v)
    if sel == 3:
        return ITEM(1, v)
    if sel == 4:
        return TASK(chain("c%d" % i, 1, 0, v))
    if sel == 5:
        return TASK(plain_task("p%d" % i, v))
    if sel == 6:
        return LAZY(True, v)
    if sel == 7:
        return REUSE("pre")           # a future computed by an earlier step, yielded again
    # ---- faults
    if sel == 8:
        return ERRFUT(i)
    if sel == 9:
        return LAZY(False, i)
    if sel == 10:
        return OBJ(i)
    if sel == 11:
        return ITEM(0, v, "err")
    if sel == 12:
        return ITEM(0, v, "unset")
    if sel == 13:
        return ITEM(1, v, "flushraise")
    if sel == 14:
        return TASK(raising_task("r%d" % i, i))
    if sel == 15:
        return TASK(raising_task("r%d" % i, i, after_items=1, kind=1, v=v))
    if sel == 16:
        return TASK(chain("c%d" % i, 2, 1, v))
    if sel == 17:
        return ITEM(1, v, "cancelself")
    # ---- failures that are not Exceptions (BaseException subclasses, like KeyboardInterrupt or a cancellation)
    if sel == 18:
        return ITEM(0, v, "err_base")
    if sel == 19:
        return ITEM(1, v, "flushraise_base")
    if sel == 20:
        return TASK(raising_task("rb%d" % i, i, after_items=1, kind=0, v=v, base=True))
    raise AssertionError(sel)


def guard(node, mode):
    """mode 0: none, 1: catch->return, 2: catch->continue, 3: catch->re-raise, 4: raise other"""
    if mode == 0:
        return node
    return TRY(node, {1: "ret", 2: "cont", 3: "reraise", 4: "other"}[mode])


def shape_root(t, sels, vals, gmode=0, with_pre=True, ret="return"):
    slots = [menu_slot(sels[i], i, vals[i]) for i in range(arity(t))]
    steps = []
    if with_pre:
        steps.append(Y(0, KEEP("pre", ITEM(0, vals[0] + 7))))
    steps.append(guard(Y(t, *slots), gmode))
    steps.append(Y(0, ITEM(0, vals[0] + 9)))
    return TaskD("root", SEQ(*steps), ret=ret)


def unused_zero(t, sels):
    """Precondition helper: selectors beyond the template's arity are pinned to 0."""
    for i in range(arity(t), len(sels)):
        if sels[i] != 0:
            return False
    return True
