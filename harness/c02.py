"""C02: failures propagate like sequential exceptions, after all siblings finish."""
from vlib.spec import Cond, I, B
from harness import core, fam

P = {"c02"}


def conds(tier):
    q = tier == "quick"
    out = []
    # fault kinds x guard modes at two levels, list and dict structures
    out.append(core.fault_cond("fault2", P, [4] if q else [2, 4], g0modes=3 if q else 5, g1modes=5, pin=4,
                               budget=300 if q else 900, slim=q))
    out.append(core.fault_cond("fault2dict", P, [6] if q else [6, 7], g0modes=1 if q else 3, g1modes=3, pin=4,
                               budget=300 if q else 900, slim=q))
    # fault position inside nested structures (3 slots), guard at the yielding task
    out.append(core.shape_cond("shapefault", P, [3, 5, 15] if q else [3, 5, 13, 15, 17, 19],
                               13, 3, gmodes=3, budget=300 if q else 1800, slim=q, pin=3))
    out.append(Cond("treeflush", core.mk_tree(P, 3, 2, 2), core.tree_params(3, 2, 2), builds=("C", "P"), pin=3, budget=120,
                    family="F-TREE(3,2,2)", encodes=core.ENC_SCHED))
    out.append(core.cancel_cond("cancel", P))
    if not q:
        out.append(core.fault_cond("fault3", P, [5], g0modes=3, g1modes=5, pin=5, budget=1800, slim=True))
    return out
