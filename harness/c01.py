"""C01: async result = sequential result (values, shapes, conventions, flush orders)."""
from vlib.spec import Cond, I, B
from harness import core, fam, lemmas, ctx

P = {"c01"}
T_QUICK = [0, 1, 2, 3, 4, 5, 6, 7, 8, 9, 10, 11, 12, 13, 15, 16, 17, 18, 20, 21]
T_ALL = list(range(22))


def conds(tier):
    q = tier == "quick"
    out = []
    out.append(Cond("tree", core.mk_tree(P, 3, 2, 2), core.tree_params(3, 2, 2), builds=("C", "P"), pin=3, budget=120,
                    family="F-TREE(3,2,2)", encodes=core.ENC_SCHED))
    out.append(core.shape_cond("shape", P, T_QUICK if q else T_ALL, fam.OK_MENU, 3 if q else 4,
                               budget=200 if q else 900))
    out.append(Cond("steps", core.mk_steps(P, 2, 3), core.steps_params(2, 3), builds=("C", "P"), pin=2, budget=120,
                    family="F-STEPS(2,3)", encodes=core.ENC_SCHED))
    out.append(core.seq_cond("seq", P, 3, 2, builds=("C", "P")))
    out.append(Cond("dag", core.mk_dag(P), core.DAG_PARAMS, builds=("C", "P"), pin=3, budget=120, family="F-DAG",
                    encodes=core.ENC_SCHED))
    out.append(Cond("reentry", core.mk_reentry(P), core.REENTRY_PARAMS, pin=3, budget=150,
                    family="F-REENTRY", encodes=core.ENC_SCHED))
    out.append(core.fault_cond("caught", P, [4] if q else [4, 6], g0modes=3, g1modes=3, pin=4,
                               budget=200 if q else 900, slim=q))
    out.append(core.cancel_cond("cancel", P))
    out.append(core.dagsync_cond("dagsync", P))
    out.append(lemmas.struct_cond())
    out.append(Cond("ctxsync", ctx.mk_ctx2(P | {"c07v"}, 2, (0, 5, 1), (1, 4), 2), ctx.ctx2_params(2, 3, 2, 2, ho=0), pin=3,
                    budget=200, family="F-CTX x F-REENTRY: scoped overrides entered after synchronous calls, read by siblings",
                    encodes=core.ENC_SCHED + ctx.ENC_CTX))
    if not q:
        out.append(Cond("tree4", core.mk_tree(P, 4, 2, 2), core.tree_params(4, 2, 2), pin=4, budget=900,
                        family="F-TREE(4,2,2)", encodes=core.ENC_SCHED))
        out.append(Cond("steps3", core.mk_steps(P, 3, 3, 2, 2), core.steps_params(3, 3, 2, 2), pin=3,
                        budget=600, family="F-STEPS(3,3,2)", encodes=core.ENC_SCHED))
    return out
