"""C13: async caches behave like their reference cache for every call history."""
import collections
import gc

import asynq
from asynq import asynq as A
from asynq import tools as T
from asynq.tools import alru_cache, acached_per_instance, alazy_constant
from vlib.spec import Cond, I, B
from vlib import rec
from harness.fam import conc, concb
from harness import prog

ENC = ["asynq/tools.py: alru_cache (decorator, cache_key, wrapper), acached_per_instance (cache_fun, cache_key, "
       "clear_cache, new_fun), alazy_constant (wrapper, dirty)",
       "qcore.caching.LRUCache / get_args_tuple / get_kwargs_defaults (executed as shipped)"]


class _B(asynq.BatchBase):
    cur = [None]
    nflush = [0]

    def _try_switch_active_batch(self):
        if _B.cur[0] is self:
            _B.cur[0] = _B()

    def _flush(self):
        _B.nflush[0] += 1
        for it in self.items:
            it.set_value(it.v)


class _It(asynq.BatchItemBase):
    def __init__(self, v):
        if _B.cur[0] is None or _B.cur[0].is_flushed():
            _B.cur[0] = _B()
        asynq.BatchItemBase.__init__(self, _B.cur[0])
        self.v = v


def call_sp(f, sp, pre, a, b, c):
    """spellings of (a, b, c) for signature (a, b=1, *, c=2)"""
    p = (pre,) if pre is not None else ()
    if sp == 0:
        return f(*p, a, b, c=c)
    if sp == 1:
        if pre is not None:
            return f(pre, a=a, b=b, c=c)
        return f(a=a, b=b, c=c)
    if sp == 2:
        return f(*p, a, b=b, c=c)
    if sp == 3 and b == 1 and c == 2:
        return f(*p, a)
    if sp == 4 and c == 2:
        return f(*p, a, b)
    return f(*p, a, c=c, b=b)


class RefLRU(object):
    def __init__(self, maxsize):
        self.maxsize = maxsize
        self.d = collections.OrderedDict()

    def get(self, k):
        if k in self.d:
            self.d.move_to_end(k)
            return True, self.d[k]
        return False, None

    def put(self, k, v):
        self.d[k] = v
        self.d.move_to_end(k)
        while len(self.d) > self.maxsize:
            self.d.popitem(last=False)


def mk_alru(L, method=False):
    def f(maxsize, keyfn, blocks, *p):
        ms = 1 + conc(maxsize, 3)
        kf = conc(keyfn, 2)
        bl = concb(blocks)
        calls = []
        for i in range(L):
            a, b, c, sp, rz = p[5 * i:5 * i + 5]
            calls.append((conc(a, 3), conc(b, 3), 2 + conc(c, 2), conc(sp, 6), concb(rz)))
        rec.clear_fail()
        prog.reset_globals()
        _B.cur[0] = None
        counter = [0]
        log = []

        def body(a, b, c, raising):
            counter[0] += 1
            n = counter[0]
            log.append((a, b, c))
            if bl:
                x = yield _It(a)
            if state["raise_now"]:
                raise prog.E(("body", a, b, c))
            return (n, a, b, c)

        state = {"raise_now": False}
        key_fn = (lambda args, kwargs: (args[-1] if args else kwargs["a"]) % 2) if kf == 1 and not method else None
        if kf == 1 and method:
            return True
        if kf == 1:
            # custom key: parity of `a`, always passed positionally in this family
            key_fn = lambda args, kwargs: args[0] % 2    # noqa: E731
        if method:
            class K(object):
                @alru_cache(maxsize=ms, key_fn=key_fn)
                @A()
                def m(self, a, b=1, *, c=2):
                    return (yield from body(a, b, c, False))
            inst = K()
            fn, pre = inst.m, None
        else:
            @alru_cache(maxsize=ms, key_fn=key_fn)
            @A()
            def fn(a, b=1, *, c=2):
                return (yield from body(a, b, c, False))
            pre = None
        ref = RefLRU(ms)
        try:
            for i, (a, b, c, sp, rz) in enumerate(calls):
                if kf == 1:
                    sp = 0 if sp % 2 == 0 else 4 if c == 2 else 0
                    key = a % 2
                else:
                    key = (a, b, c)
                hit, val = ref.get(key)
                state["raise_now"] = rz
                before = counter[0]
                try:
                    got = ("v", call_sp(fn, sp, pre, a, b, c))
                except prog.E as e:
                    got = ("e", e)
                except Exception as e:
                    prog.reraise_control(e)
                    got = ("x", e)
                ran = counter[0] - before
                desc = "alru_cache(maxsize=%d%s)%s calls %s: call #%d" % (
                    ms, ", key_fn" if kf else "", " on a method" if method else "", calls[:i + 1], i)
                if hit:
                    if ran != 0:
                        return rec.fail(desc + " ran the body on a reference-cache hit")
                    if got != ("v", val):
                        return rec.fail(desc + " returned %r, reference cache holds %r" % (got, val))
                else:
                    if ran != 1:
                        return rec.fail(desc + " is a miss in the reference cache (key %r) but the body ran %d "
                                        "times and %r was returned" % (key, ran, got))
                    if rz:
                        if got[0] != "e":
                            return rec.fail(desc + " body raised but call returned %r" % (got,))
                    else:
                        if got != ("v", (counter[0], a, b, c)):
                            return rec.fail(desc + " returned %r, expected fresh %r" % (got, (counter[0], a, b, c)))
                        ref.put(key, got[1])
            rec.wit("paths")
            rec.done(("alru", ms, kf, bl, tuple(calls)), True)
            return True
        finally:
            prog.reset_globals()
    return f


def alru_params(L, amax=2, bmax=2, cmax=1, spmax=5, rz=True, msmax=2, kfmax=1):
    ps = [I("maxsize", 0, msmax), I("keyfn", 0, kfmax), B("blocks")]
    for i in range(L):
        ps += [I("a%d" % i, 0, amax), I("b%d" % i, 0, bmax), I("c%d" % i, 0, cmax), I("sp%d" % i, 0, spmax),
               I("rz%d" % i, 0, 1 if rz else 0)]
    return ps


def mk_acpi(L):
    def f(blocks, dropat, *p):
        bl = concb(blocks)
        calls = []
        for i in range(L):
            inst, a, b, sp, rz = p[5 * i:5 * i + 5]
            calls.append((conc(inst, 2), conc(a, 2), conc(b, 3), conc(sp, 6), concb(rz)))
        drop = conc(dropat, L + 1)
        rec.clear_fail()
        prog.reset_globals()
        _B.cur[0] = None
        counter = [0]
        state = {"raise_now": False}

        class K(object):
            def __init__(self, t):
                self.t = t

            @acached_per_instance()
            @A()
            def m(self, a, b=1, *, c=2):
                counter[0] += 1
                n = counter[0]
                if bl:
                    yield _It(a)
                if state["raise_now"]:
                    raise prog.E("body")
                return (n, self.t, a, b, c)

        insts = [K(0), K(1)]
        ref = [{}, {}]
        try:
            for i, (ii, a, b, sp, rz) in enumerate(calls):
                got = None      # a caught exception's traceback would keep the instance alive
                if drop == i + 1 and insts[1] is not None:
                    # the instance goes away: its cache must vanish with it
                    ident = id(insts[1])
                    insts[1] = None
                    gc.collect()
                    if ident in K.m.decorator.__acached_per_instance_cache__:
                        return rec.fail("per-instance cache survived its instance")
                    insts[1] = K(1)
                    ref[1] = {}
                key = (a, b, 2)
                hit = key in ref[ii]
                state["raise_now"] = rz
                before = counter[0]
                try:
                    got = ("v", call_sp(insts[ii].m, sp, None, a, b, 2))
                except prog.E as e:
                    got = ("e", e)
                ran = counter[0] - before
                desc = "acached_per_instance calls %s: call #%d" % (calls[:i + 1], i)
                if hit:
                    if ran != 0 or got != ("v", ref[ii][key]):
                        return rec.fail(desc + " hit: body ran %d times, returned %r, reference %r" % (ran, got, ref[ii][key]))
                else:
                    if ran != 1:
                        return rec.fail(desc + " miss: body ran %d times (returned %r)" % (ran, got))
                    if rz:
                        if got[0] != "e":
                            return rec.fail(desc + " raising body returned %r" % (got,))
                    else:
                        if got != ("v", (counter[0], ii, a, b, 2)):
                            return rec.fail(desc + " returned %r" % (got,))
                        ref[ii][key] = got[1]
            rec.wit("paths")
            rec.done(("acpi", bl, drop, tuple(calls)), True)
            return True
        finally:
            prog.reset_globals()
    return f


def acpi_params(L, bmax=2, spmax=5, rz=True):
    ps = [B("blocks"), I("dropat", 0, L)]
    for i in range(L):
        ps += [I("inst%d" % i, 0, 1), I("a%d" % i, 0, 1), I("b%d" % i, 0, bmax), I("sp%d" % i, 0, spmax),
               I("rz%d" % i, 0, 1 if rz else 0)]
    return ps


def mk_overlap(kind):
    """Two calls issued in one yield (both in flight over the same flush; fresh instances / empty cache), then a
    third, sequential call.  kind 0: acached_per_instance, 1: alru_cache(maxsize=2) function, 2: alru_cache method"""
    def f(delay, *p):
        dl = conc(delay, 3)
        calls = []
        for i in range(3):
            inst, a, b, sp = p[4 * i:4 * i + 4]
            calls.append((conc(inst, 2), conc(a, 2), conc(b, 2), conc(sp, 6)))
        rec.clear_fail()
        prog.reset_globals()
        _B.cur[0] = None
        counter = [0]

        def body(t, a, b, c):
            counter[0] += 1
            n = counter[0]
            yield _It(a)
            if dl == 1 and a == 0 or dl == 2 and a == 1:
                yield _It(a)        # this execution finishes one flush later than the other one
            return (n, t, a, b, c)

        if kind == 1:
            # one configured decorator object applied to two functions: each function has a cache of its own
            memo = alru_cache(maxsize=2)

            @memo
            @A()
            def fn(a, b=1, *, c=2):
                return (yield from body(0, a, b, c))

            @memo
            @A()
            def gn(a, b=1, *, c=2):
                return (yield from body(1, a, b, c))
            targets = [fn, gn]
        else:
            deco = acached_per_instance() if kind == 0 else alru_cache(maxsize=4)

            class K(object):
                def __init__(self, t):
                    self.t = t

                def __hash__(self):
                    return 7 + self.t

                def __eq__(self, other):
                    return self is other

                @deco
                @A()
                def m(self, a, b=1, *, c=2):
                    return (yield from body(self.t, a, b, c))
            ks = [K(0), K(1)]
            targets = [ks[0].m, ks[1].m]
        name = ["acached_per_instance", "alru_cache: two functions decorated with one alru_cache(maxsize=2) object",
                "alru_cache method"][kind]
        got = {}

        @A()
        def root():
            ts = [call_sp(targets[ii].asynq, sp, None, a, b, 2) for (ii, a, b, sp) in calls[:2]]
            r = yield ts
            got[0], got[1] = r

        try:
            root()
            keys = [(ii, a, b, 2) for (ii, a, b, sp) in calls]
            for j in (0, 1):
                ii, a, b, c = keys[j]
                g = got[j]
                if g[1:] != (ii, a, b, 2):
                    return rec.fail("%s: overlapping calls %s: call #%d received %r" % (name, calls[:2], j, g))
            ran = counter[0]
            if keys[0] != keys[1] and ran != 2:
                return rec.fail("%s: two overlapping calls with different keys ran the body %d times" % (name, ran))
            if ran not in (1, 2):
                return rec.fail("%s: two overlapping calls ran the body %d times" % (name, ran))
            before = counter[0]
            ii, a, b, sp = calls[2]
            g2 = call_sp(targets[ii], sp, None, a, b, 2)
            cands = [got[j] for j in (0, 1) if keys[j] == keys[2]]
            if cands:
                if counter[0] != before or not any(g2 == cnd for cnd in cands):
                    return rec.fail("%s: after overlapping calls %s the call %s is a hit in the reference cache "
                                    "(stored %r) but ran the body %d times and returned %r" % (
                                        name, calls[:2], calls[2], cands, counter[0] - before, g2))
            else:
                if counter[0] != before + 1 or g2 != (counter[0], ii, a, b, 2):
                    return rec.fail("%s: after overlapping calls %s the call %s is a miss in the reference cache "
                                    "but ran the body %d times and returned %r" % (
                                        name, calls[:2], calls[2], counter[0] - before, g2))
            rec.wit("paths")
            if cands:
                rec.wit("third_call_hit")
            rec.done(("overlap", kind, dl, tuple(calls)), True)
            return True
        finally:
            prog.reset_globals()
    return f


def overlap_params(kind, q):
    ps = [I("delay", 0, 1 if q else 2)]
    im = 1
    spm = [1, 2, 3] if q else [2, 3, 5]
    for i in range(3):
        ps += [I("inst%d" % i, 0, im), I("a%d" % i, 0, 1), I("b%d" % i, 1 if (i == 1 and q) else 0, 1), I("sp%d" % i, 0, spm[i])]
    return ps


def mk_alazy(L):
    def f(ttlsel, blocks, *p):
        """ops: 0 call, 1 dirty; clock: one symbolic non-decreasing positive reading per operation"""
        ops = [conc(p[i], 2) for i in range(L)]
        dts = p[L:2 * L]
        t0 = p[2 * L]
        rz = [concb(x) for x in p[2 * L + 1:3 * L + 1]]
        ttl = p[3 * L + 1]
        use_ttl = concb(ttlsel)
        bl = concb(blocks)
        rec.clear_fail()
        prog.reset_globals()
        _B.cur[0] = None
        counter = [0]
        now = [t0]
        state = {"raise_now": False}
        the_ttl = ttl if use_ttl else 0

        @alazy_constant(ttl=the_ttl)
        @A()
        def const():
            counter[0] += 1
            n = counter[0]
            if bl:
                yield _It(n)
            if state["raise_now"]:
                raise prog.E("body")
            return n

        saved = T.utime
        T.utime = lambda: now[0]
        try:
            have = False
            val = None
            tref = None
            for i, op in enumerate(ops):
                now[0] = now[0] + dts[i]
                desc = "alazy_constant(ttl=%s) ops %s: op #%d" % ("symbolic" if use_ttl else 0, ops[:i + 1], i)
                if op == 1:
                    const.dirty()
                    have = False
                    continue
                state["raise_now"] = rz[i]
                before = counter[0]
                try:
                    got = ("v", const())
                except prog.E as e:
                    got = ("e", e)
                ran = counter[0] - before
                if ran > 1:
                    return rec.fail(desc + " ran the body %d times" % ran)
                must = (not have) or (use_ttl and (now[0] - tref > the_ttl))
                may = must or (use_ttl and (now[0] - tref == the_ttl))
                if must and ran != 1:
                    return rec.fail(desc + " must recompute (dirty/never computed/expired) but did not")
                if (not may) and ran != 0:
                    return rec.fail(desc + " recomputed although the cached value is still valid")
                if ran == 1:
                    if rz[i]:
                        if got[0] != "e":
                            return rec.fail(desc + " raising body returned %r" % (got,))
                        # a raising body is not cached: the previous value (if any) stays as it was
                    else:
                        if got != ("v", counter[0]):
                            return rec.fail(desc + " returned %r, fresh value is %r" % (got, counter[0]))
                        have, val, tref = True, got[1], now[0]
                else:
                    if got != ("v", val):
                        return rec.fail(desc + " returned %r, cached value is %r" % (got, val))
            rec.wit("paths")
            rec.done(("alazy", use_ttl, bl, tuple(ops), tuple(rz)), True)
            return True
        finally:
            T.utime = saved
            prog.reset_globals()
    return f


def alazy_params(L):
    return ([B("ttlsel"), B("blocks")] + [I("op%d" % i, 0, 1) for i in range(L)]
            + [I("dt%d" % i, 0, None) for i in range(L)] + [I("t0", 1, None)] + [B("rz%d" % i) for i in range(L)]
            + [I("ttl", 1, None)])


def conds(tier):
    q = tier == "quick"
    out = []
    if q:
        out.append(Cond("alru", mk_alru(3), alru_params(3, 1, 1, 0, 3, False, 1, 1), pin=4, builds=("C",), budget=300,
                        family="alru_cache on a function: 3 calls x args in {0,1}^2 x 4 spellings x maxsize 1..2 x key_fn",
                        encodes=ENC))
        out.append(Cond("alru_raise", mk_alru(3), alru_params(3, 1, 0, 1, 1, True, 1, 0), pin=4, builds=("C",), budget=300,
                        family="alru_cache: raising bodies are not cached; keyword-only argument", encodes=ENC))
        out.append(Cond("alru_method", mk_alru(2, method=True), alru_params(2, 1, 1, 0, 5, True, 1, 0), pin=3,
                        builds=("C",), budget=300, family="alru_cache on an instance method", encodes=ENC))
        out.append(Cond("acpi", mk_acpi(3), acpi_params(3, 1, 1, False), pin=4, builds=("C",), budget=300,
                        family="acached_per_instance: two instances, instance dropped, 3 calls", encodes=ENC,
                        extra_pre=["not blocks and dropat != 1 and dropat != 3"],
                        shard_filter=lambda blocks, dropat, inst0, a0: (not blocks) and dropat in (0, 2)))
        out.append(Cond("acpi_raise", mk_acpi(3), acpi_params(3, 0, 0, True), pin=2, builds=("C",), budget=300,
                        family="acached_per_instance: raising bodies", encodes=ENC))
        out.append(Cond("alazy", mk_alazy(4), alazy_params(4), pin=3, builds=("C",), budget=300,
                        family="alazy_constant: call/dirty histories of length 4 under a symbolic clock", encodes=ENC))
    for kind, nm in ((0, "acpi"), (1, "alru"), (2, "alru_method")):
        out.append(Cond("overlap_" + nm, mk_overlap(kind), overlap_params(kind, q), pin=3, builds=("C",), budget=200 if q else 1200,
                        family="%s: two calls in flight at the same time on an empty cache / fresh instances, then a "
                               "third call" % nm, encodes=ENC))
    if q:
        pass
    else:
        out.append(Cond("alru", mk_alru(4), alru_params(4, 1, 1, 0, 3, False, 1, 1), pin=5, builds=("C",), budget=3000,
                        family="alru_cache on a function: 4 calls", encodes=ENC, extra_pre=["not blocks"],
                        shard_filter=lambda maxsize, keyfn, blocks, a0, b0: not blocks))
        out.append(Cond("alru3", mk_alru(3), alru_params(3, 2, 1, 1, 2, False, 1, 0), pin=5, builds=("C",), budget=3000,
                        family="alru_cache: 3 calls, a in {0,1,2}, keyword-only argument, 3 spellings", encodes=ENC))
        out.append(Cond("alru_raise", mk_alru(3), alru_params(3, 1, 0, 1, 1, True, 1, 0), pin=4, builds=("C", "P"),
                        budget=1200, family="alru_cache: raising bodies are not cached", encodes=ENC))
        out.append(Cond("alru_method", mk_alru(3, method=True), alru_params(3, 1, 1, 0, 2, True, 1, 0), pin=4,
                        builds=("C",), budget=3000, family="alru_cache on an instance method: 3 calls", encodes=ENC))
        out.append(Cond("acpi", mk_acpi(4), acpi_params(4, 0, 1, True), pin=4, builds=("C",), budget=3000,
                        family="acached_per_instance: 4 calls, two instances", encodes=ENC,
                        extra_pre=["not blocks and dropat <= 2"],
                        shard_filter=lambda blocks, dropat, inst0, a0: (not blocks) and dropat <= 2))
        out.append(Cond("alazy", mk_alazy(6), alazy_params(6), pin=4, builds=("C", "P"), budget=1800,
                        family="alazy_constant: histories of length 6", encodes=ENC))
    return out
