"""C05: each batch flushed once, highest priority first; every item answered; events paired."""
from vlib.spec import Cond, I, B
from harness import core, fam, lemmas

P = {"c05", "c05prio"}      # yield-only families: priority clause asserted
PR = {"c05"}                # re-entry / fault families: no priority clause (DESIGN.md C05 scope)


def conds(tier):
    q = tier == "quick"
    out = []
    out.append(Cond("tree", core.mk_tree(P, 3, 2, 2), core.tree_params(3, 2, 2), builds=("C", "P"), pin=3, budget=120,
                    family="F-TREE(3,2,2) tuple priorities", encodes=core.ENC_SCHED))
    out.append(Cond("treeint", core.mk_tree(P, 3, 2, 2, prio_mode="int"), core.tree_params(3, 2, 2), pin=3,
                    budget=120, family="F-TREE(3,2,2) get_priority overridden to arbitrary ints",
                    encodes=core.ENC_SCHED))
    out.append(Cond("treedef", core.mk_tree(P, 3, 2, 2, prio_mode="default"), core.tree_params(3, 2, 2), pin=3,
                    budget=120, family="F-TREE(3,2,2) default priority (most items)", encodes=core.ENC_SCHED))
    out.append(Cond("steps", core.mk_steps(P, 2, 3), core.steps_params(2, 3), builds=("C", "P"), pin=2, budget=120,
                    family="F-STEPS(2,3)", encodes=core.ENC_SCHED))
    out.append(core.seq_cond("seq", P, 3, 2, builds=("C", "P")))
    out.append(core.seq_cond("seq_opts", P, 3, 2, options=("COLLECT_PERF_STATS", "KEEP_DEPENDENCIES")))
    out.append(Cond("reentry", core.mk_reentry(PR), core.REENTRY_PARAMS, pin=3, budget=150,
                    family="F-REENTRY", encodes=core.ENC_SCHED))
    out.append(core.fault_cond("fault", PR | {"c02"}, [4], g0modes=2, g1modes=3, pin=4, budget=200, slim=q))
    out.append(core.cancel_cond("cancel", PR | {"c02"}))
    out.append(core.dagsync_cond("dagsync", PR))
    out.append(lemmas.select_cond())
    out.append(Cond("flushraise", core.mk_flushraise({"c05"}), core.FLUSHRAISE_PARAMS, pin=3, budget=100,
                    family="a batch whose public flush() raises after flushing: before/after events stay paired",
                    encodes=core.ENC_SCHED))
    if not q:
        out.append(Cond("tree3k", core.mk_tree(P, 3, 2, 3), core.tree_params(3, 2, 3), pin=3, budget=900,
                        family="F-TREE(3,2,3)", encodes=core.ENC_SCHED))
        out.append(Cond("tree4", core.mk_tree(P, 4, 2, 2, prio_mode="int"), core.tree_params(4, 2, 2), pin=4,
                        budget=900, family="F-TREE(4,2,2) int priorities", encodes=core.ENC_SCHED))
    return out
