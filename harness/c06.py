"""C06: an AsyncContext is active exactly while its task, or work it awaits, runs."""
from vlib.spec import Cond, I, B
from harness import core, fam, ctx

P = {"c06", "c06v"}


def conds(tier):
    q = tier == "quick"
    out = []
    out.append(Cond("ctx2", ctx.mk_ctx2(P, 2, (0, 1, 4, 6, 8), (0, 3, 4, 6, 7, 11, 12), 4), ctx.ctx2_params(2, 5, 7, 4, ho=0 if q else 1), pin=3,
                    budget=200, family="F-CTX two pending tasks", encodes=ctx.ENC_CTX))
    out.append(Cond("ctxsync", ctx.mk_ctx2(P, 2, (0, 5, 7, 9), (0, 7), 2), ctx.ctx2_params(2, 4, 2, 2), pin=3,
                    builds=("C", "P"),
                    budget=200, family="F-CTX x F-REENTRY (synchronous calls, child tasks)", encodes=ctx.ENC_CTX))
    if not q:
        out.append(Cond("ctx3", ctx.mk_ctx2(P, 3, (0, 1, 4, 6, 8), (0, 3, 4, 6, 7, 11, 12), 4), ctx.ctx2_params(3, 5, 7, 4),
                        pin=3, budget=3000, family="F-CTX three steps", encodes=ctx.ENC_CTX))
    return out
