"""C04: batches are flushed only when nothing else can run (maximal batching)."""
from vlib.spec import Cond, I, B
from harness import core, fam

P = {"c04"}


def conds(tier):
    q = tier == "quick"
    out = []
    out.append(Cond("tree1k", core.mk_tree(P, 3, 3, 1, single_kind=True), core.tree_params(3, 3, 1, True),
                    pin=2, budget=120, family="F-TREE(3,3,1) single kind: flushes == critical path",
                    encodes=core.ENC_SCHED))
    out.append(Cond("tree", core.mk_tree(P, 3, 2, 2), core.tree_params(3, 2, 2), builds=("C", "P"), pin=3, budget=120,
                    family="F-TREE(3,2,2)", encodes=core.ENC_SCHED))
    out.append(Cond("steps", core.mk_steps(P, 2, 3, 2, 2), core.steps_params(2, 3, 2, 2), builds=("C", "P"), pin=3, budget=200,
                    family="F-STEPS(2,3,2)", encodes=core.ENC_SCHED))
    out.append(core.seq_cond("seq", P, 3, 2, builds=("C", "P")))
    out.append(core.seq_cond("seq_opts", P, 3, 2, options=("COLLECT_PERF_STATS", "KEEP_DEPENDENCIES")))
    out.append(core.shape_cond("shape", P, [4, 5, 6, 7, 13, 15, 20, 21] if q else list(range(22)), fam.OK_MENU, 3 if q else 4,
                               budget=200 if q else 900, slim=q))
    out.append(Cond("dag", core.mk_dag(P), core.DAG_PARAMS, builds=("C", "P"), pin=3, budget=120, family="F-DAG",
                    encodes=core.ENC_SCHED))
    out.append(core.fault_cond("fault", P, [4], g0modes=2 if q else 3, g1modes=3, pin=4, budget=200, slim=q))
    if not q:
        out.append(Cond("tree4", core.mk_tree(P, 4, 2, 2), core.tree_params(4, 2, 2), pin=4, budget=900,
                        family="F-TREE(4,2,2)", encodes=core.ENC_SCHED))
        out.append(Cond("tree1k4", core.mk_tree(P, 4, 3, 1, single_kind=True), core.tree_params(4, 3, 1, True),
                        pin=3, budget=600, family="F-TREE(4,3,1)", encodes=core.ENC_SCHED))
        out.append(Cond("steps3", core.mk_steps(P, 3, 3, 3, 0), core.steps_params(3, 3, 3, 0), pin=3, budget=600,
                        family="F-STEPS(3,3) K=3", encodes=core.ENC_SCHED))
    return out
