"""C15: fn.asyncio() under an event loop matches the asynq result (batch-free programs)."""
import asyncio
import logging

import asynq
from asynq import asynq as A
from asynq import async_proxy, ConstFuture, is_asyncio_mode, result
from vlib.spec import Cond, I, B
from vlib import rec
from harness.fam import conc, concb, arity
from harness import fam, prog, core
from harness.prog import (TaskD, SEQ, Y, TASK, CONST, NONE, OBJ, TRY, RAISE, RET, Ref, shape, desc_of, E, _Ret,
                          _Obj, reraise_control)

ENC = ["asynq/decorators.py: convert_asynq_to_async, PureAsyncDecorator.asyncio/_call_pure, "
       "AsyncDecorator.__call__ (RuntimeError in asyncio mode), AsyncDecoratorBinder.asyncio, "
       "AsyncProxyDecorator.asyncio/_call_pure",
       "asynq/asynq_to_async.py: resolve_awaitables, _gather, AsyncioMode, is_asyncio_mode",
       "asyncio event loop (CPython, executed as shipped)"]


async def _leaf_native(v):
    return ("leaf", v)


@A(asyncio_fn=_leaf_native)
def leaf_explicit(v):
    return ("leaf", v)


@A()
def returns_exception():
    return EXC_VALUE_BOX[0]


EXC_VALUE_BOX = [None]


class Env(object):
    def __init__(self):
        self.done = {}
        self.problems = []
        self.mode_seen = []
        self.budget = 400           # task bodies started; the checked programs have < 20 tasks

    def __repr__(self):
        return "<Env>"


def make_slot(env, sid, slot):
    k = slot[0]
    if k == "none":
        return None
    if k == "const":
        return ConstFuture(slot[1])
    if k == "task":
        return afn.asynq(slot[1], env, sid)
    if k == "obj":
        return _Obj(slot[1])
    if k == "leafx":
        return leaf_explicit.asynq(slot[1])
    if k == "retexc":
        return returns_exception.asynq()
    if k == "meth":
        return Holder(3).m.asynq(slot[1], env, sid)
    if k == "proxy":
        return PROXY[0].asynq(slot[1], env, sid)
    raise AssertionError(slot)


def run_node(env, st, node):
    k = node[0]
    if k == "seq":
        for n in node[1]:
            r = yield from run_node(env, st, n)
            if r is not None:
                return r
        return None
    if k == "y":
        tmpl, slots = node[1], node[2]
        sids = []
        futs = []
        for i, s in enumerate(slots):
            sid = "%s/%d.%d" % (st["sid"], st["nyield"], i)
            sids.append(sid if s[0] in ("task", "meth", "proxy") else None)
            futs.append(make_slot(env, sid, s))
        st["nyield"] += 1
        try:
            got = yield shape(tmpl, futs)
        except Exception as e:
            reraise_control(e)
            for sd in sids:
                if sd is not None and not env.done.get(sd):
                    env.problems.append("failure delivered at %s while awaitable %s was not done" % (st["sid"], sd))
            raise
        for sd in sids:
            if sd is not None and not env.done.get(sd):
                env.problems.append("%s resumed while awaitable %s was not done" % (st["sid"], sd))
        st["trace"].append(got)
        return None
    if k == "try":
        mode = node[2]
        try:
            r = yield from run_node(env, st, node[1])
            return r
        except Exception as e:
            reraise_control(e)
            st["trace"].append(("caught", desc_of(e)))
            if mode == "ret":
                return _Ret(("caughtret", desc_of(e)))
            if mode == "cont":
                return None
            if mode == "reraise":
                raise
            raise E(("other", st["sid"]))
    if k == "raise":
        raise E(("raise", node[1]))
    if k == "ret":
        return _Ret(node[1])
    if k == "synccall":
        # a plain synchronous call of an @asynq() function: fine under asynq, RuntimeError under asyncio
        try:
            v = afn(node[1], env, st["sid"] + "/sc")
            st["trace"].append(("sync", "ok"))
        except RuntimeError:
            st["trace"].append(("sync", "RuntimeError"))
        return None
    raise AssertionError(node)


def _body(td, env, sid):
    st = {"sid": sid, "nyield": 0, "trace": []}
    env.budget -= 1
    if env.budget < 0:
        raise RuntimeError("harness: runaway program (more task bodies started than the program has tasks)")
    env.mode_seen.append(is_asyncio_mode())
    try:
        r = yield from run_node(env, st, td.body)
    finally:
        env.done[sid] = True
    val = (td.name, tuple(st["trace"]), r.value if r is not None else None)
    if td.ret == "result":
        result(val)
        return
    return val


@A()
def afn(td, env, sid):
    return (yield from _body(td, env, sid))


class Holder(object):
    def __init__(self, t):
        self.t = t

    @A()
    def m(self, td, env, sid):
        return (yield from _body(td, env, sid))


class FalsyHolder(Holder):
    """an instance whose truth value is False (an empty container)"""

    def __len__(self):
        return 0


def new_proxied():
    """a fresh proxy function per checked program: whatever a decorator object remembers between calls starts empty on
    every path (and in the concrete replay), so that paths are independent of each other"""
    @async_proxy()
    def proxied(td, env, sid):
        return afn.asynq(td, env, sid)
    return proxied


PROXY = [None]


class ARef(Ref):
    """reference for the C15 body: same sequential semantics; 'synccall' depends on the mode"""

    def __init__(self, asyncio_mode):
        Ref.__init__(self, None)
        self.am = asyncio_mode

    def slot(self, st, slot, idx):
        k = slot[0]
        if k == "leafx":
            return ("v", ("leaf", slot[1])), False, 0
        if k == "retexc":
            return ("v", EXC_VALUE_BOX[0]), False, 0
        if k in ("meth", "proxy"):
            return self.task(slot[1], "%s/%d.%d" % (st["sid"], st["nyield"], idx))
        return Ref.slot(self, st, slot, idx)

    def node(self, st, node):
        if node[0] == "synccall":
            st["trace"].append(("sync", "RuntimeError" if self.am else "ok"))
            return None
        return Ref.node(self, st, node)


def run_loop(coro):
    loop = asyncio.new_event_loop()
    try:
        return loop.run_until_complete(coro)
    finally:
        loop.close()


def check(td, entry=0, sig=None):
    """entry: 0 function, 1 method, 2 async_proxy, 3 method of a falsy instance"""
    rec.clear_fail()
    prog.reset_globals()
    logging.disable(logging.CRITICAL)
    PROXY[0] = proxied = new_proxied()
    try:
        outs = []
        for mode in ("asynq", "asyncio"):
            env = Env()
            if is_asyncio_mode():
                return rec.fail("asyncio-mode flag is on before the call")
            try:
                if mode == "asynq":
                    if entry == 0:
                        v = afn(td, env, "0")
                    elif entry == 1:
                        v = Holder(3).m(td, env, "0")
                    elif entry == 3:
                        v = FalsyHolder(4).m(td, env, "0")
                    else:
                        v = proxied(td, env, "0")
                else:
                    flags = []

                    async def main():
                        # the coroutine is awaited in THIS asyncio task (same context): the flag must be off
                        # before it starts and again after it finished, also when it failed
                        flags.append(is_asyncio_mode())
                        try:
                            if entry == 0:
                                return await afn.asyncio(td, env, "0")
                            elif entry == 1:
                                return await Holder(3).m.asyncio(td, env, "0")
                            elif entry == 3:
                                return await FalsyHolder(4).m.asyncio(td, env, "0")
                            else:
                                return await proxied.asyncio(td, env, "0")
                        finally:
                            flags.append(is_asyncio_mode())
                    try:
                        v = run_loop(main())
                    finally:
                        if any(flags):
                            env.problems.append("asyncio-mode flag seen by the awaiting coroutine before/after "
                                                "fn.asyncio(): %r" % (flags,))
                got = ("v", v)
            except Exception as e:
                reraise_control(e)
                got = ("e", desc_of(e))
            except asynq.AsyncTaskResult as e:
                got = ("e", ("X", "AsyncTaskResult escaped", ""))
            if is_asyncio_mode():
                return rec.fail("asyncio-mode flag is still on after %s ended with %r" % (mode, got))
            if env.problems:
                return rec.fail("%s: %s" % (mode, env.problems[0]))
            want_mode = (mode == "asyncio")
            if any(m != want_mode for m in env.mode_seen):
                return rec.fail("%s: is_asyncio_mode() inside a body was %r" % (mode, env.mode_seen))
            ref = ARef(want_mode)
            exp, _b, _d = ref.task(td, "0")
            if got != exp:
                return rec.fail("%s run gave %r, sequential reference %r" % (mode, got, exp))
            outs.append(got)
        rec.wit("paths")
        if outs[0][0] == "e":
            rec.wit("root_failed")
        rec.done(sig, True)
        return True
    finally:
        logging.disable(logging.NOTSET)
        prog.reset_globals()


# slot menu for batch-free programs
AMENU = 11
EXC_VALUE = E("an exception object returned as an ordinary value")



def aslot(sel, i, v):
    if sel == 0:
        return NONE
    if sel == 1:
        return CONST(v)
    if sel == 2:
        return TASK(fam.plain_task("p%d" % i, v))
    if sel == 3:
        return TASK(TaskD("n%d" % i, SEQ(Y(0, CONST(v)), Y(0, TASK(fam.plain_task("pp%d" % i, v + 1))))))
    if sel == 4:
        return TASK(fam.raising_task("r%d" % i, i))
    if sel == 5:
        return TASK(TaskD("nr%d" % i, SEQ(Y(0, TASK(fam.plain_task("q%d" % i, v))), RAISE(i))))
    if sel == 6:
        return OBJ(i)
    if sel == 7:
        return ("leafx", v)
    if sel == 8:
        return ("meth" if i % 2 == 0 else "proxy", fam.plain_task("mp%d" % i, v))
    if sel == 9:
        # a task whose ordinary return value contains an exception *object* (returned, not raised)
        return TASK(fam.plain_task("ev%d" % i, EXC_VALUE))
    if sel == 10:
        return ("retexc",)      # an awaited function whose result IS an exception object
    raise AssertionError(sel)


def mk(templates, nslots=3):
    def f(t, g0, g1, entry, res, sc, *a):
        tt = templates[conc(t, len(templates))]
        sels = [conc(a[i], AMENU) for i in range(nslots)]
        for i in range(arity(tt), nslots):
            if sels[i] != 0:
                return True
        vals = a[nslots:2 * nslots]
        slots = [aslot(sels[i], i, vals[i]) for i in range(arity(tt))]
        gm0, gm1 = conc(g0, 3), conc(g1, 5)
        steps = [fam.guard(Y(tt, *slots), gm1), Y(0, CONST(vals[0] + 5))]
        if conc(sc, 2):
            steps.insert(1, ("synccall", fam.plain_task("sc", 1)))
        mid = TaskD("mid", SEQ(*steps), ret="result" if conc(res, 2) else "return")
        td = TaskD("root", SEQ(fam.guard(Y(4, TASK(mid), TASK(fam.plain_task("sib", vals[0]))), gm0), Y(0, CONST(1))))
        return check(td, conc(entry, 4), sig=("c15", tt, tuple(sels), gm0, gm1, conc(entry, 4)))
    return f


def params(nt, nslots=3, menu=AMENU, g0=2, g1=4, entry=3, res=True, sc=True):
    return ([I("t", 0, nt - 1), I("g0", 0, g0), I("g1", 0, g1), I("entry", 0, entry), I("res", 0, 1 if res else 0),
             I("sc", 0, 1 if sc else 0)]
            + [I("s%d" % i, 0, menu - 1) for i in range(nslots)] + [I("v%d" % i) for i in range(nslots)])


def conds(tier):
    q = tier == "quick"
    out = []
    if q:
        T = [4, 6]
        out.append(Cond("prog2", mk(T), params(len(T), res=False), pin=3, builds=("C",), budget=300,
                        family="batch-free programs: list/dict of 2 slots x 9 slot kinds x guards at two levels x "
                               "entry (function/method/async_proxy) x synchronous call inside", encodes=ENC,
                        extra_pre=["_hm.core.unused_ok(%r, t, [s0, s1, s2])" % (T,), "g0 != 1"],
                        shard_filter=lambda t, g0, g1: g0 != 1))
        T3 = [5, 3]
        out.append(Cond("prog3", mk(T3), params(len(T3), menu=AMENU, g0=0, g1=2, entry=0, res=True, sc=False), pin=3,
                        builds=("C",), budget=300, family="batch-free programs: 3-slot nested structures, result() "
                        "style return", encodes=ENC))
        TE = [0, 1]
        out.append(Cond("prog1", mk(TE), params(len(TE), menu=AMENU, g0=0, g1=2, entry=3, res=False, sc=False), pin=2,
                        builds=("C",), budget=200, family="batch-free programs: a bare awaitable / a one-element list "
                        "x 11 slot kinds x guard x 4 entries", encodes=ENC,
                        extra_pre=["_hm.core.unused_ok(%r, t, [s0, s1, s2])" % (TE,)]))
    else:
        T = [4, 6, 2]
        out.append(Cond("prog2", mk(T), params(len(T)), pin=4, builds=("C",), budget=3000,
                        family="batch-free programs: list/dict/tuple of 2 slots x 11 slot kinds x guards x 4 entries x "
                               "result() x synchronous call", encodes=ENC,
                        extra_pre=["_hm.core.unused_ok(%r, t, [s0, s1, s2])" % (T,)]))
        T3 = [5, 3, 13, 15]
        out.append(Cond("prog3", mk(T3), params(len(T3), menu=AMENU, g0=0, g1=2, entry=1, res=True, sc=False), pin=4,
                        builds=("C",), budget=3000, family="batch-free programs: 3-slot nested structures", encodes=ENC))
        TE = [0, 1, 8, 9, 10, 11, 12, 16]
        out.append(Cond("prog1", mk(TE), params(len(TE), menu=AMENU, g0=0, g1=2, entry=3, res=False, sc=False), pin=2,
                        builds=("C",), budget=900, family="batch-free programs: single-slot and empty structures",
                        encodes=ENC, extra_pre=["_hm.core.unused_ok(%r, t, [s0, s1, s2])" % (TE,)]))
    return out


EXC_VALUE_BOX[0] = EXC_VALUE
