"""Per-property metadata: harness module, claimed level, notes (feeds MANIFEST.json)."""

NOTES = ("All checks: ./run check <ID> --tier quick|thorough.  Each check copies /repo's working tree into "
         "scratch builds (pure-Python and Cython), runs CrossHair/z3 over harness conditions with symbolic "
         "values, priorities (= flush schedule), fault selectors and shape selectors, replays every "
         "counterexample concretely before reporting, and writes evidence/<ID>.json.  Exit 0 ok, 1 violation, "
         "3 harness error (non-reproducing counterexample, nondeterminism, vacuous condition).")

_BOUNDED = ("Bounded: the verdict covers every value of the symbolic parameters inside the ranges listed in the "
            "evidence file ('conditions'), on the listed program families; programs, histories and schedules "
            "outside them are not covered.  Trusted: CPython 3.12, Cython's translation (the compiled build is "
            "executed, not modelled), CrossHair's int/bool proxies, z3, and the sequential reference interpreter.")

PROPS = {
    "C01": {
        "module": "harness.c01",
        "level_text": "Bounded symbolic execution of the real scheduler/task/decorator code on program families "
                      "(trees, step sequences, DAGs, nested yield structures, re-entry, caught faults); task and "
                      "item values and batch priorities are symbolic, so z3 decides every flush order and the "
                      "equality with a sequential reference interpreter for all values in the bound.",
        "level_note": _BOUNDED,
    },
    "C02": {"module": "harness.c02", "level_text": "TODO", "level_note": _BOUNDED},
    "C03": {"module": "harness.c03", "level_text": "TODO", "level_note": _BOUNDED},
    "C04": {"module": "harness.c04", "level_text": "TODO", "level_note": _BOUNDED},
    "C05": {"module": "harness.c05", "level_text": "TODO", "level_note": _BOUNDED},
    "C08": {"module": "harness.c08", "level_text": "TODO", "level_note": _BOUNDED},
    "C06": {"module": "harness.c06", "level_text": "TODO", "level_note": _BOUNDED},
    "C07": {"module": "harness.c07", "level_text": "TODO", "level_note": _BOUNDED},
    "C10": {"module": "harness.c10", "level_text": "TODO", "level_note": _BOUNDED},
    "C09": {"module": "harness.c09", "level_text": "TODO", "level_note": _BOUNDED},
    "C11": {"module": "harness.c11", "level_text": "TODO", "level_note": _BOUNDED},
    "C12": {"module": "harness.c12", "level_text": "TODO", "level_note": _BOUNDED},
    "C13": {"module": "harness.c13", "level_text": "TODO", "level_note": _BOUNDED},
    "C14": {"module": "harness.c14", "level_text": "TODO", "level_note": _BOUNDED},
    "C15": {"module": "harness.c15", "level_text": "TODO", "level_note": _BOUNDED},
    "C16": {"module": "harness.c16", "level_text": "TODO", "level_note": _BOUNDED},
    "C17": {"module": "harness.c17", "level_text": "TODO", "level_note": _BOUNDED},
    "C18": {"module": "harness.c18", "level_text": "TODO", "level_note": _BOUNDED},
    "C19": {"module": "harness.c19", "level_text": "TODO", "level_note": _BOUNDED},
    "C20": {"module": "harness.c20", "level_text": "TODO", "level_note": _BOUNDED},
}
