"""Per-property metadata: harness module, claimed level, notes (feeds MANIFEST.json via vlib/mkmanifest.py)."""

NOTES = ("All checks: ./run check <ID> --tier quick|thorough.  Each check copies /repo's working tree into scratch "
         "builds (pure-Python and Cython-compiled; /repo's own .so files are never used), runs CrossHair/z3 over "
         "harness conditions whose parameters - values, batch priorities (= flush schedule), fault selectors, shape "
         "selectors, operation codes, option bits, clock readings, thread hand-over bits - are symbolic, replays "
         "every counterexample concretely on fresh builds before reporting, applies known_findings.json, and "
         "writes evidence/<ID>.json.  Exit 0 = held on everything explored, 1 = VIOLATION (replayed), 3 = harness "
         "error (non-reproducing counterexample, nondeterminism, vacuous condition); budget exhaustion is reported "
         "as 'inconclusive' in the evidence, never as success-for-all.  selftest/seedtool.py applies the seeded "
         "changes under seeded/ to /repo, runs checks and undoes them.")

_BOUNDED = ("Bounded: the verdict covers every value of the symbolic parameters inside the ranges listed in the "
            "evidence file (coverage.conditions[*].bounds), on the listed program/history families; programs, "
            "histories, option subsets and schedules outside them are not covered.  Trusted: CPython 3.12, "
            "Cython's translation (the compiled build is executed, not modelled), CrossHair's int/bool proxies "
            "(harness and asynq see them through the object protocol; bytecode tracing is off, see DESIGN.md 3.2), "
            "z3 5.1, and the reference interpreter / reference state machines in /verif/harness.")

_T = "bounded symbolic execution of the real code with CrossHair + z3 (symbolic values, priorities, selectors)"


def _p(module, text, note=None, technique=_T, **kw):
    d = {"module": module, "level": "other", "level_text": text, "level_note": note or _BOUNDED, "technique": technique,
         "design_ref": "DESIGN.md section 5"}
    d.update(kw)
    return d


PROPS = {
    "C01": _p("harness.c01",
              "Real scheduler/task/decorator code run symbolically on program families (trees, mixed step sequences, "
              "DAGs, every yield-structure template x slot kind, re-entry, cancellation, caught faults, six calling "
              "conventions incl. methods of a falsy instance, return/result()); item values and batch priorities are symbolic, so z3 decides every "
              "flush order (ties through a hash-order selector) and the equality of the outcome and of every value "
              "received at a yield with a sequential reference interpreter."),
    "C02": _p("harness.c02",
              "Fault site, fault kind (task raises, item error, item left unset, flush raises, ErrorFuture, failing "
              "lazy Future, non-future object, cancelled batch; failures derived from Exception and from "
              "BaseException) and guard mode at two levels are selectors; the "
              "oracle checks exception identity with the failing future's error(), completion of all siblings at "
              "delivery, first-in-structure-order, continuation after a catch, and the root outcome against the "
              "reference."),
    "C03": _p("harness.c03",
              "Monitors inside real task bodies: every yielded future computed at each resumption, no implicit "
              "flush forced by a premature resumption, tasks yielded together start in written order, orphans never "
              "start, every awaited task computed exactly once, watchdog for lost wake-ups, F-SEQ also with "
              "COLLECT_PERF_STATS + KEEP_DEPENDENCIES on; chains of 1500 (C) / "
              "1100 (P) tasks in quick and 20000 on both builds in thorough."),
    "C04": _p("harness.c04",
              "At every scheduler flush event the harness walks the awaited computation: every uncompleted task has "
              "started and waits, directly or transitively, on an unflushed item; no batch is flushed outside the "
              "scheduler's flush step; single-kind programs perform exactly critical-path many flushes (reference "
              "round count)."),
    "C05": _p("harness.c05",
              "Per batch identity at most one flush-body execution; never an empty/flushed/cancelled batch; never a "
              "flush after the innermost awaited computation completed; in yield-only families the flushed batch's "
              "symbolic priority is maximal among pending batches (tuple, overridden int and default priorities); "
              "items completed exactly once by their flush and the waiting task receives what the reference says; "
              "before/after events bracket.  One genuine defect is "
              "recorded in known_findings.json (re-entrant double flush)."),
    "C06": _p("harness.c06",
              "Recording contexts at symbolic block positions/kinds/exit modes in two concurrently pending tasks "
              "(plus child, grandchild, failing and synchronously called tasks inside the block, and a synchronous "
              "callee that dies in a context resume before the block): strict "
              "resume/pause alternation, active at every step of the owner and of tasks only it awaits, paused at "
              "foreign steps and flushes; NonAsyncContext fails the task iff the reference says it must be "
              "suspended inside the block."),
    "C07": _p("harness.c07",
              "Scoped-value / attribute overrides with symbolic override values in 2-4 concurrently pending tasks, "
              "nested overrides of the same target, three task levels: every read equals the reference's "
              "dynamically scoped value, resume/pause events are well bracketed thread-wide, targets restored "
              "after success and failure."),
    "C08": _p("harness.c08",
              "Histories [computation, canary] (thorough: three long) on one scheduler without reset: faulty "
              "programs, contexts whose k-th resume/pause raises, MAX_TASK_STACK_SIZE RuntimeError with pending "
              "batches (also below a nested synchronous call); get_active_task() checked at every step, after nested calls, after waiting for tasks "
              "created elsewhere, and after return; scheduler stack empty; the canary behaves as on a fresh "
              "scheduler."),
    "C09": _p("harness.c09",
              "14 decorator kinds x 10 bindings (incl. falsy and value-equal receivers) x 4 argument spellings with symbolic arguments: every applicable "
              "calling convention returns what the undecorated body returns for the expected receiver, sync_fn is "
              "used for the synchronous call, classification helpers agree with how the callable can be called; a "
              "deduplicated body that re-enters itself with the same key."),
    "C10": _p("harness.c10",
              "Operation-code vectors (value, error, call, is_computed, set_value, set_error, reset_unsafe, "
              "subscribe good/raising/self-unsubscribing) of length 3-5 on 8 future kinds against an explicit reference state machine "
              "including notification log and provider-run counter; errors include falsy exception objects; both builds."),
    "C11": _p("harness.c11",
              "Operation-code vectors of length 3-5 over add/flush/cancel/value/error/queries/str with 10 flush-body "
              "plans (incl. a _cancel() hook that answers an item itself) on BatchBase subclasses and DebugBatch against a reference lifecycle machine (once-only "
              "transitions, item outcomes, announcement order, active-batch switch before the flush body)."),
    "C12": _p("harness.c12",
              "Two (thorough: three) callers inside a real computation with symbolic callee kind, spelling, "
              "arguments, delay and dirty(), symbolic priorities: identity of returned tasks equals the reference "
              "in-flight map evaluated at the call moment, body-run counter per key, shared result objects, re-run "
              "after completion, empty table at the end; executions completed on another thread; a call left in flight by a thread that has ended followed by the same call on a later thread; executions that "
              "end abnormally (failing context resume, raising clean-up)."),
    "C13": _p("harness.c13",
              "Call histories against reference caches: alru_cache (LRU order, capacity, key_fn, spellings, raising "
              "bodies, methods), acached_per_instance (independent instances, cache vanishes with the instance), "
              "two calls in flight over the same flush for all three cache kinds (one alru_cache object shared by "
              "two functions), "
              "alazy_constant under a stub clock returning symbolic non-decreasing readings (expiry required beyond "
              "ttl, forbidden before, free at equality)."),
    "C14": _p("harness.c14",
              "Each helper against its built-in on symbolic elements: lists/tuples/one-shot iterators of length "
              "<=3-4, unorderable payloads with equal keys, reverse, both call forms, blocking and immediate keys, "
              "keys that raise different exception types on different elements "
              "(one flush per helper call), bad-input exception types, aretry for all (k, max_tries)."),
    "C15": _p("harness.c15",
              "Batch-free programs run through fn(args) and through fn.asyncio(args) on a real event loop and "
              "compared with the sequential reference: structure templates x slot kinds x guards x entry "
              "(function/method/async_proxy/explicit asyncio_fn) x result(); all awaitables done at failure "
              "delivery; mode flag off before/after; synchronous call inside raises RuntimeError."),
    "C16": _p("harness.c16",
              "BOUNDED FORM of the property: two real threads whose execution is sequentialised at harness-visible "
              "points (task steps, flush events, get_priority, deduplicated bodies); a window of 4-6 symbolic bits at "
              "a symbolic offset chooses where control is handed over and the second thread advances 1/3/6 points "
              "per hand-over; programs use DebugBatchItem, contexts, deduplicate with dirty(), COLLECT_PERF_STATS, or "
              "run in asyncio mode on their own loop; each thread's outcome, batch compositions, context events, "
              "dedup counts and profiler buffer equal its run alone.  True pre-emption between bytecodes, >2 threads and OS schedules are NOT covered.",
              note=_BOUNDED + "  The second thread runs concrete values (CrossHair state is per thread)."),
    "C17": _p("harness.c17",
              "Generator bodies as vectors of <=4-5 codes (await item/const/task, Value, Value(None), Value(a future)) with "
              "symbolic values: list_of_generator, take_first(n) for all n incl. 0 followed by take_first(n2), "
              "consumption counter, documented manual iteration with repeated early-advance RuntimeError, exhausted "
              "generator keeps raising StopIteration."),
    "C18": _p("harness.c18",
              "filter_traceback against an independent re-implementation over an alphabet built from the token "
              "lists read out of the current debug.py (truncated/corrupted runs, substring tokens, all sequences of "
              "<=5-7 lines over a 6-line alphabet); glued tracebacks and format_asynq_stack for depth x raise "
              "position x re-raise position (optionally after a computation that failed in a context resume) on both "
              "builds; str/repr/dump totality over 31 object states and "
              "mid-run objects; format_error totality."),
    "C19": _p("harness.c19",
              "8 target kinds (static/class methods also through an instance, value-equal instances) x 9 replacement kinds x 5 activation "
              "styles x exit by exception x nested/sequential/repeated second patch, with symbolic argument and return value: the four conventions reach the replacement "
              "and agree, the original object is back afterwards."),
    "C20": _p("harness.c20",
              "(a) every path runs one of 12 program skeletons with default options and again with a symbolic "
              "option subset (size <=2 of 19, or all on; time-based dumps forced; single options and all-on also with "
              "both runs on fresh threads) and compares outcome, flush "
              "compositions, scheduler events, context events, reads, scheduler hygiene.  (b) every store into a "
              "C-typed numeric slot of the .pxd files is translated from the current source into an SMT-LIB range "
              "query under a stated clock contract, decided by z3 4.8, z3 5.1 and cvc5; sat models are replayed on "
              "the compiled build with a stub clock.",
              technique="bounded symbolic execution (CrossHair + z3) + AST/.pxd -> SMT-LIB range queries on three solvers",
              custom="harness.c20_custom",
              note=_BOUNDED + "  Option subsets larger than two (other than all-on) are outside the claim; clock "
                              "contract: positive non-decreasing microsecond readings, <= 24 h per profiled step, "
                              "<= 10^4 updates per accumulator."),
}
