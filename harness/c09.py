"""C09: all ways of calling an async function agree, for every kind of callable."""
import asynq
from asynq import (asynq as A, async_proxy, async_call, make_async_decorator, ConstFuture, is_pure_async_fn,
                   is_async_fn, has_async_fn, get_async_fn, get_async_or_sync_fn)
from asynq.tools import deduplicate, aretry, alru_cache, acached_per_instance
from vlib.spec import Cond, I, B
from vlib import rec
from harness.fam import conc
from harness import prog

ENC = ["asynq/decorators.py: PureAsyncDecorator, AsyncDecorator, AsyncDecoratorBinder, "
       "AsyncAndSyncPairDecorator(+Binder, __get__), AsyncProxyDecorator, AsyncAndSyncPairProxyDecorator, "
       "async_call, AsyncWrapper/make_async_decorator, is_async_fn, is_pure_async_fn, has_async_fn, "
       "get_async_fn, get_async_or_sync_fn",
       "asynq/tools.py: deduplicate/DeduplicateDecorator(+Binder), aretry, alru_cache, acached_per_instance",
       "qcore.decorators.DecoratorBase/DecoratorBinder (compiled; executed, not encoded)"]

KINDS = ["asynq-plain", "asynq-generator", "asynq-batch", "asynq-pure", "async_proxy", "sync_fn-pair",
         "make_async_decorator", "deduplicate", "aretry", "alru_cache", "acached_per_instance",
         "pure-generator", "proxy-pair", "deduplicate-generator"]
BINDINGS = ["function", "instance", "class", "subclass-instance", "classmethod", "staticmethod",
            "falsy instance (defines __len__ -> 0)", "classmethod via subclass after access via base class",
            "second instance after access via first instance",
            "second instance that is == (and hashes like) a first, distinct instance used just before"]


class _B(asynq.BatchBase):
    cur = [None]

    def _try_switch_active_batch(self):
        if _B.cur[0] is self:
            _B.cur[0] = _B()

    def _flush(self):
        for it in self.items:
            it.set_value(it.v)


class _It(asynq.BatchItemBase):
    def __init__(self, v):
        if _B.cur[0] is None or _B.cur[0].is_flushed():
            _B.cur[0] = _B()
        asynq.BatchItemBase.__init__(self, _B.cur[0])
        self.v = v


def wrapdeco(fun):
    @A(pure=True)
    def wrapper_fn(*args, **kwargs):
        value = yield fun.asynq(*args, **kwargs)
        return ("wrapped", value)
    return make_async_decorator(fun, wrapper_fn, "wrapdeco")


def recv_tag(r):
    if r is None:
        return None
    if isinstance(r, type):
        return ("cls", r.__name__)
    return ("inst", type(r).__name__, r.t)


def build(kind, binding):
    """Returns (callable as a user would reference it, expected receiver, extra positional receiver or None,
    is_pure, has_sync, wrapped)"""
    log = []

    # bodies ---------------------------------------------------------------------------
    def mk_body(who, has_recv, gen):
        if has_recv:
            if gen == 0:
                def body(r, x, y=5, *, z=7):
                    log.append(who)
                    return (who, recv_tag(r), x, y, z)
            elif gen == 1:
                def body(r, x, y=5, *, z=7):
                    log.append(who)
                    a = yield ConstFuture(x)
                    return (who, recv_tag(r), a, y, z)
            else:
                def body(r, x, y=5, *, z=7):
                    log.append(who)
                    a = yield _It(x)
                    return (who, recv_tag(r), a, y, z)
        else:
            if gen == 0:
                def body(x, y=5, *, z=7):
                    log.append(who)
                    return (who, None, x, y, z)
            elif gen == 1:
                def body(x, y=5, *, z=7):
                    log.append(who)
                    a = yield ConstFuture(x)
                    return (who, None, a, y, z)
            else:
                def body(x, y=5, *, z=7):
                    log.append(who)
                    a = yield _It(x)
                    return (who, None, a, y, z)
        return body

    has_recv = binding in (1, 2, 3, 4, 6, 7, 8, 9)
    gen = {1: 1, 2: 2, 11: 1, 13: 1}.get(kind, 0)
    raw = mk_body("async", has_recv, gen)
    sync_raw = mk_body("sync", has_recv, 0)

    def wrap_binding(f):
        if binding in (4, 7):
            return classmethod(f)
        if binding == 5:
            return staticmethod(f)
        return f

    pure = kind in (3, 11)
    has_sync = kind in (5, 12)
    wrapped = kind == 6
    if kind in (0, 1, 2):
        dec = A()(wrap_binding(raw))
    elif kind in (3, 11):
        dec = A(pure=True)(wrap_binding(raw))
    elif kind in (4, 12):
        inner = A()(raw)       # plain function object used by the proxy body
        if has_recv:
            def proxy_body(r, x, y=5, *, z=7):
                return inner.asynq(r, x, y, z=z)
        else:
            def proxy_body(x, y=5, *, z=7):
                return inner.asynq(x, y, z=z)
        if kind == 4:
            dec = async_proxy()(wrap_binding(proxy_body))
        else:
            # AsyncAndSyncPairProxyDecorator does not rebind sync_fn (no __get__): the binder prepends
            # the class itself, so for a classmethod the sync_fn is given as a plain function
            dec = async_proxy(sync_fn=sync_raw if binding in (4, 7) else wrap_binding(sync_raw))(wrap_binding(proxy_body))
    elif kind == 5:
        dec = A(sync_fn=wrap_binding(sync_raw))(wrap_binding(raw))
    elif kind == 6:
        dec = wrapdeco(A()(wrap_binding(raw)))
    elif kind in (7, 13):
        dec = deduplicate()(A()(wrap_binding(raw)))
    elif kind == 8:
        dec = aretry(ValueError, max_tries=2, sleep=0)(A()(raw))
    elif kind == 9:
        dec = alru_cache(maxsize=4)(A()(raw))
    elif kind == 10:
        dec = acached_per_instance()(A()(raw))
    else:
        raise AssertionError(kind)

    class K(object):
        def __init__(self, t):
            self.t = t

    class Sub(K):
        pass

    class Falsy(K):
        def __len__(self):
            return 0

    if binding == 0:
        return dec, None, None, pure, has_sync, wrapped, raw, sync_raw, log
    K.m = dec
    if binding == 1:
        inst = K(3)
        return inst.m, inst, None, pure, has_sync, wrapped, raw, sync_raw, log
    if binding == 2:
        inst = K(4)
        return K.m, inst, inst, pure, has_sync, wrapped, raw, sync_raw, log
    if binding == 3:
        inst = Sub(6)
        return inst.m, inst, None, pure, has_sync, wrapped, raw, sync_raw, log
    if binding == 4:
        return Sub.m, Sub, None, pure, has_sync, wrapped, raw, sync_raw, log
    if binding == 5:
        return K(8).m, None, None, pure, has_sync, wrapped, raw, sync_raw, log
    if binding == 6:
        inst = Falsy(9)
        return inst.m, inst, None, pure, has_sync, wrapped, raw, sync_raw, log
    if binding == 7:
        K.m                 # the attribute is first looked up on the base class ...
        K.m
        return Sub.m, Sub, None, pure, has_sync, wrapped, raw, sync_raw, log   # ... then used through the subclass
    if binding == 8:
        first = K(1)
        first.m
        inst = K(2)
        return inst.m, inst, None, pure, has_sync, wrapped, raw, sync_raw, log
    if binding == 9:
        class KV(K):
            """a value object: instances with the same .val are equal and hash alike (.t tells them apart)"""
            def __init__(self, t, val):
                K.__init__(self, t)
                self.val = val

            def __eq__(self, other):
                return isinstance(other, KV) and other.val == self.val

            def __hash__(self):
                return 17
        KV.m = dec
        first = KV(1, "same")
        first.m
        inst = KV(2, "same")
        return inst.m, inst, None, pure, has_sync, wrapped, raw, sync_raw, log
    raise AssertionError(binding)


def applicable(kind, binding):
    if kind in (8, 9) and binding not in (0, 1, 6, 8, 9):
        return False
    if kind == 9 and binding in (6, 8, 9):
        return False
    if kind == 9 and binding == 1:
        return False        # alru_cache drops the first parameter from its key: written for functions
    if kind == 10 and binding not in (1, 6, 8, 9):
        return False
    if kind == 9 and binding == 0:
        return True
    return True


def call_spelling(f, sp, pre, x, y, z):
    a = (pre,) if pre is not None else ()
    if sp == 0:
        return f(*a, x, y, z=z)
    if sp == 1:
        if pre is not None:
            return f(pre, x=x, y=y, z=z)
        return f(x=x, y=y, z=z)
    if sp == 2:
        return f(*a, x)
    return f(*a, x, y)


def expected_args(sp, x, y, z):
    if sp in (0, 1):
        return x, y, z
    if sp == 2:
        return x, 5, 7
    return x, y, 7


def f_matrix(kind, binding, sp, x, y, z):
    k, b, s = conc(kind, len(KINDS)), conc(binding, len(BINDINGS)), conc(sp, 4)
    rec.clear_fail()
    if not applicable(k, b):
        return True
    if k == 9 and b == 0:
        # alru_cache hashes its arguments: keep the tree finite (stated bound)
        if not (0 <= x <= 1 and 0 <= y <= 1 and 0 <= z <= 1):
            return True
    if k == 10:
        if not (0 <= x <= 1 and 0 <= y <= 1 and 0 <= z <= 1):
            return True
    if k in (7, 13):
        if not (0 <= x <= 1 and 0 <= y <= 1 and 0 <= z <= 1):
            return True
    prog.reset_globals()
    _B.cur[0] = None
    try:
        f, recv, pre, pure, has_sync, wrapped, raw, sync_raw, log = build(k, b)
        ex, ey, ez = expected_args(s, x, y, z)
        want_async = ("async", recv_tag(recv), ex, ey, ez)
        want_sync = ("sync", recv_tag(recv), ex, ey, ez) if has_sync else want_async
        if wrapped:
            want_async = ("wrapped", want_async)
            want_sync = want_async
        desc = "%s x %s x spelling %d" % (KINDS[k], BINDINGS[b], s)
        outs = {}

        def attempt(name, thunk):
            try:
                outs[name] = ("v", thunk())
            except Exception as e:
                prog.reraise_control(e)
                outs[name] = ("e", type(e).__name__, str(e)[:200])

        if pure:
            attempt("call().value()", lambda: call_spelling(f, s, pre, x, y, z).value())

            @A()
            def yielder():
                return (yield call_spelling(f, s, pre, x, y, z))
            attempt("yield", yielder)
            attempt("async_call", lambda: call_spelling(lambda *a, **kw: async_call.asynq(f, *a, **kw), s, pre, x, y, z).value())
            for name in ("call().value()", "yield", "async_call"):
                if outs[name] != ("v", want_async):
                    return rec.fail("%s: convention %s gave %r, expected %r" % (desc, name, outs[name], want_async))
        else:
            attempt("sync", lambda: call_spelling(f, s, pre, x, y, z))
            attempt("asynq().value()", lambda: call_spelling(f.asynq, s, pre, x, y, z).value())

            @A()
            def yielder():
                return (yield call_spelling(f.asynq, s, pre, x, y, z))
            attempt("yield", yielder)
            attempt("async_call", lambda: call_spelling(lambda *a, **kw: async_call.asynq(f, *a, **kw), s, pre, x, y, z).value())
            if outs["sync"] != ("v", want_sync):
                return rec.fail("%s: synchronous call gave %r, expected %r" % (desc, outs["sync"], want_sync))
            for name in ("asynq().value()", "yield", "async_call"):
                if outs[name] != ("v", want_async):
                    return rec.fail("%s: convention %s gave %r, expected %r" % (desc, name, outs[name], want_async))
        # classification helpers consistent with how it can be called
        if not is_async_fn(f):
            return rec.fail("%s: is_async_fn is False" % desc)
        if bool(is_pure_async_fn(f)) != pure:
            return rec.fail("%s: is_pure_async_fn = %r" % (desc, is_pure_async_fn(f)))
        if bool(has_async_fn(f)) != (not pure):
            return rec.fail("%s: has_async_fn = %r" % (desc, has_async_fn(f)))
        g = get_async_fn(f)
        if g is None:
            return rec.fail("%s: get_async_fn returned None" % desc)
        try:
            r = call_spelling(g, s, pre, x, y, z).value()
        except Exception as e:
            prog.reraise_control(e)
            r = ("raised", type(e).__name__)
        if r != want_async:
            return rec.fail("%s: get_async_fn(f)(...).value() gave %r, expected %r" % (desc, r, want_async))
        h = get_async_or_sync_fn(f)
        try:
            r = call_spelling(h, s, pre, x, y, z).value()
        except Exception as e:
            prog.reraise_control(e)
            r = ("raised", type(e).__name__)
        if r != want_async:
            return rec.fail("%s: get_async_or_sync_fn(f)(...).value() gave %r, expected %r" % (desc, r, want_async))
        rec.wit("paths")
        rec.done(("c09", k, b, s), True)
        return True
    finally:
        prog.reset_globals()


def f_plain_helpers(which, x):
    """helpers on things that are not async: plain functions and lazy()"""
    from asynq.decorators import lazy
    rec.clear_fail()
    w = conc(which, 3)

    def plain(a):
        return ("plain", a)
    if w == 0:
        if is_async_fn(plain) or is_pure_async_fn(plain) or has_async_fn(plain):
            return rec.fail("plain function classified as async")
        if get_async_fn(plain) is not None:
            return rec.fail("get_async_fn(plain) is not None")
        if get_async_or_sync_fn(plain) is not plain:
            return rec.fail("get_async_or_sync_fn(plain) is not plain")
        g = get_async_fn(plain, wrap_if_none=True)
        if not is_pure_async_fn(g) or g(x).value() != ("plain", x):
            return rec.fail("get_async_fn(plain, wrap_if_none=True) does not wrap into a pure async fn")
        if async_call.asynq(plain, x).value() != ("plain", x) or async_call(plain, x) != ("plain", x):
            return rec.fail("async_call on a plain function")
    elif w == 1:
        lz = lazy(plain)
        if not is_pure_async_fn(lz) or not is_async_fn(lz) or has_async_fn(lz):
            return rec.fail("lazy() function misclassified")
        fut = lz(x)
        if fut.is_computed() or fut.value() != ("plain", x):
            return rec.fail("lazy() future wrong")
        if async_call.asynq(lz, x).value() != ("plain", x):
            return rec.fail("async_call on lazy fn")
    else:
        if is_pure_async_fn(asynq.decorators.AsyncDecorator) or is_pure_async_fn(asynq.decorators.PureAsyncDecorator):
            return rec.fail("decorator classes classified as pure async fns")
    rec.wit("paths")
    rec.done(("c09h", w), True)
    return True


def f_dedup_reenter(binding, sp, spi, conv, x, y, z):
    """A deduplicated body that, while running, calls itself again with the same arguments (the nested call gets a
    private execution): nested and outer call both run the body with the receiver and arguments of the call."""
    b, s, si, cv = conc(binding, 3), conc(sp, 4), conc(spi, 2), conc(conv, 2)
    rec.clear_fail()
    _B.cur[0] = None
    state = {"depth": 0, "inner": None}

    class K(object):
        def __init__(self, t):
            self.t = t

        @deduplicate()
        @A()
        def m(self, x, y=5, *, z=7):
            if state["depth"] == 0:
                state["depth"] = 1
                state["inner"] = call_spelling(self.m.asynq, si, None, x, y, z).value()
            a = yield _It(x)
            return ("async", recv_tag(self), a, y, z)

    class Falsy(K):
        def __len__(self):
            return 0

    @deduplicate()
    @A()
    def fn(x, y=5, *, z=7):
        if state["depth"] == 0:
            state["depth"] = 1
            state["inner"] = call_spelling(fn.asynq, si, None, x, y, z).value()
        a = yield _It(x)
        return ("async", None, a, y, z)

    inst = None if b == 0 else (K(3) if b == 1 else Falsy(4))
    target = fn if inst is None else inst.m
    ex, ey, ez = expected_args(s, x, y, z)
    want = ("async", recv_tag(inst), ex, ey, ez)
    try:
        if cv == 0:
            got = call_spelling(target, s, None, x, y, z)
        else:
            got = call_spelling(target.asynq, s, None, x, y, z).value()
    except Exception as e:
        prog.reraise_control(e)
        return rec.fail("deduplicated %s re-entering itself (outer spelling %d, nested spelling %d): raised %r" % (
            BINDINGS[[0, 1, 6][b]], s, si, e))
    if got != want:
        return rec.fail("deduplicated %s re-entering itself: outer call returned %r, expected %r" % (
            BINDINGS[[0, 1, 6][b]], got, want))
    if state["inner"] != want:
        return rec.fail("deduplicated %s re-entering itself with spelling %d: nested call returned %r, expected %r" % (
            BINDINGS[[0, 1, 6][b]], si, state["inner"], want))
    rec.wit("paths")
    rec.done(("c09re", b, s, si, cv), True)
    return True


def conds(tier):
    out = []
    out.append(Cond("matrix", f_matrix, [I("kind", 0, len(KINDS) - 1), I("binding", 0, 9), I("sp", 0, 3),
                                         I("x"), I("y"), I("z")], pin=1, builds=("C", "P"), budget=200,
                    family="decorator kind x binding x argument spelling, symbolic arguments", encodes=ENC))
    out.append(Cond("dedup_reenter", f_dedup_reenter, [I("binding", 0, 2), I("sp", 0, 3), I("spi", 0, 1), I("conv", 0, 1),
                                                       I("x", 0, 1), I("y", 0, 1), I("z", 0, 1)], pin=2, builds=("C", "P"), budget=60,
                    family="deduplicated function / method that calls itself with the same key while running: "
                           "spelling of the outer and of the nested call, convention", encodes=ENC))
    out.append(Cond("helpers", f_plain_helpers, [I("which", 0, 2), I("x")], pin=0, builds=("C", "P"), budget=60,
                    family="classification helpers on non-async callables", encodes=ENC))
    return out
