"""Program descriptions, the generic task body, harness batches/contexts, monitors and the
sequential reference interpreter (DESIGN.md section 4).

Everything here is *user code as a user would write it*: real @asynq() generator
functions, real BatchBase/BatchItemBase/AsyncContext subclasses, public hooks only.
Leaf values, priorities and fault selectors may be CrossHair symbolic ints/bools; program
shape is concrete.
"""
import collections

import asynq
from asynq import scheduler as _sched
from asynq import batching as _batching
from asynq import futures as _futures
from asynq import async_task as _async_task
from asynq import tools as _tools
from asynq import profiler as _profiler
from asynq import debug as _adebug
from asynq.contexts import AsyncContext, NonAsyncContext
from asynq.scoped_value import AsyncScopedValue, async_override

from vlib import rec

AsyncTask = _async_task.AsyncTask


class Hang(Exception):
    """Raised by the watchdog when a harness object is polled too often (lost wake-up)."""


class E(Exception):
    """Harness exception carrying a concrete tag."""

    def __init__(self, tag):
        Exception.__init__(self, tag)
        self.tag = tag

    def __repr__(self):
        return "E(%r)" % (self.tag,)


class FE(E):
    """A harness exception that is falsy (an aggregate-style error with no entries): an error is an error
    whatever its truth value."""

    def __len__(self):
        return 0

    def __repr__(self):
        return "FE(%r)" % (self.tag,)


class BE(BaseException):
    def __init__(self, tag):
        BaseException.__init__(self, tag)
        self.tag = tag


def reraise_control(exc):
    """CrossHair's path-steering exceptions are BaseExceptions that asynq may capture as task
    errors: hand them back to CrossHair instead of judging them."""
    if exc is not None and type(exc).__module__.startswith("crosshair"):
        raise exc


def desc_of(exc):
    """Concrete description of an exception for comparison with the reference."""
    reraise_control(exc)
    if isinstance(exc, E):
        return ("E", exc.tag)
    if isinstance(exc, BE):
        return ("BE", exc.tag)
    if isinstance(exc, AssertionError):
        return ("A",)
    if isinstance(exc, TypeError):
        return ("T",)
    if isinstance(exc, Hang):
        return ("HANG",)
    return ("X", type(exc).__name__, str(exc)[:80])


# ---------------------------------------------------------------------------------------
# structure templates: arity and constructor; slots are placed left to right, so structure
# order (the order unwrap() visits) equals slot order.

TEMPLATES = [
    (1, lambda s: s[0]),                         # 0  a
    (1, lambda s: (s[0],)),                      # 1  (a,)
    (2, lambda s: (s[0], s[1])),                 # 2  (a, b)
    (3, lambda s: (s[0], s[1], s[2])),           # 3  (a, b, c)
    (2, lambda s: [s[0], s[1]]),                 # 4  [a, b]
    (3, lambda s: [s[0], (s[1], s[2])]),         # 5  [a, (b, c)]
    (2, lambda s: {"k": s[0], "l": s[1]}),       # 6  {k: a, l: b}
    (2, lambda s: {"k": [s[0], s[1]]}),          # 7  {k: [a, b]}
    (0, lambda s: []),                           # 8  []
    (0, lambda s: ()),                           # 9  ()
    (0, lambda s: {}),                           # 10 {}
    (0, lambda s: None),                         # 11 None
    (1, lambda s: [s[0], None, ()]),             # 12 [a, None, ()]
    (3, lambda s: ((s[0], s[1]), [s[2]])),       # 13 ((a, b), [c])
    (4, lambda s: [s[0], s[1], s[2], s[3]]),     # 14 [a, b, c, d]
    (3, lambda s: (s[0], [s[1], {"k": s[2]}])),  # 15 (a, [b, {k: c}])
    (1, lambda s: [s[0]]),                       # 16 [a]
    (3, lambda s: [s[0], s[1], s[2]]),           # 17 [a, b, c]
    (2, lambda s: ([s[0]], (s[1],))),            # 18 ([a], (b,))
    (4, lambda s: (s[0], s[1], s[2], s[3])),     # 19 (a, b, c, d)
    (2, lambda s: {"k": {"m": s[0], "n": s[1]}}),                # 20 {k: {m: a, n: b}}
    (3, lambda s: {"k": {"m": s[0]}, "l": [s[1], {"n": s[2]}]}),  # 21 {k: {m: a}, l: [b, {n: c}]}
]
# templates in which every slot is reached through lists/tuples only (start-order clause)
SEQ_ONLY = {0, 1, 2, 3, 4, 5, 12, 13, 14, 16, 17, 18, 19}


def shape(tmpl, slots):
    return TEMPLATES[tmpl][1](slots)


def item_value(kind, arg):
    return arg * 2 + kind


# ---------------------------------------------------------------------------------------
# program description constructors


class TaskD(object):
    def __init__(self, name, body, pure=False, ret="return"):
        self.name = name
        self.body = body
        self.pure = pure
        self.ret = ret      # 'return' | 'result'

    def __repr__(self):
        return "TaskD(%s)" % self.name


def SEQ(*nodes):
    return ("seq", list(nodes))


def Y(tmpl, *slots):
    assert TEMPLATES[tmpl][0] == len(slots), (tmpl, slots)
    return ("y", tmpl, list(slots))


def WITH(ctx, node):
    return ("with", ctx, node)


def TRY(node, mode):
    return ("try", node, mode)   # mode: 'ret' | 'cont' | 'reraise' | 'other'


def SYNC(spelling, slot):
    return ("sync", spelling, slot)


def WITHPRE(idx, outer_value, node):
    return ("withpre", idx, outer_value, node)


def RAISE(tag, base=False):
    return ("raise", tag, base)


def READ(sv):
    return ("read", sv)


def RET(value):
    return ("ret", value)


def CANCEL(kind):
    return ("cancel", kind)


def WAITPRE(key):
    return ("waitpre", key)


def OVERLAP(spec_a, spec_b, inside, between):
    return ("overlap", spec_a, spec_b, inside, between)


def ENTER(spec, key):
    return ("enter", spec, key)


def LEAVE(spec, key):
    return ("leave", spec, key)


def STASH(key, td):
    return ("stash", key, td)


NONE = ("none",)


def CONST(v):
    return ("const", v)


def ITEM(kind, arg, plan="ok"):
    return ("item", kind, arg, plan)


def TASK(td):
    return ("task", td)


def SHARED(key, td):
    return ("shared", key, td)


def KEEP(key, slot):
    return ("keep", key, slot)


def REUSE(key):
    return ("reuse", key)


def ERRFUT(tag):
    return ("errfut", tag)


def LAZY(ok, v):
    return ("lazy", ok, v)


def OBJ(v):
    return ("obj", v)


def ORPHAN(td):
    return ("orphan", td)


# ---------------------------------------------------------------------------------------
# runtime


class RT(object):
    """State of one program execution: harness batches, logs, monitors."""

    def __init__(self, nkinds=2, prio=None, prio_mode="tuple", hash_order=0, budget=4000,
                 sv_init=(0, 0), monitors=()):
        self.nkinds = nkinds
        self.prio = list(prio) if prio is not None else [0] * nkinds
        self.prio_mode = prio_mode          # 'tuple' -> (p, len(items)); 'int' -> p ; 'default'
        self.hash_order = hash_order
        self.budget = budget
        self.monitors = set(monitors)
        self.active = {}
        self.serials = collections.Counter()
        self.batches = []
        self.clock = 0
        self.events = []                    # ('step', sid, n) / ('flush', kind, serial) / ...
        self.flush_log = []                 # dicts
        self.sched_events = []              # ('before'|'after', batch)
        self.tasks = collections.OrderedDict()   # sid -> {'obj', 'ts', 'yielded'}
        self.shared = {}
        self.started = []
        self.computed_count = collections.Counter()
        self.item_computed = collections.Counter()
        self.items = {}                     # sid -> item
        self.item_flush = {}                # sid -> index into flush_log
        self.item_cancel = {}               # sid -> error its batch was cancelled with
        self.public_flush_raises = None     # (kind, serial) of a batch whose public flush() raises afterwards
        self.precreated = {}                # key -> task created at top level before the computation
        self.stash = {}                     # key -> task created inside a task, waited for afterwards
        self.ended = False
        self.wait_stack = []                # tasks being waited for synchronously
        self.problems = []                  # monitor violations (concrete strings)
        self.ctx_log = []                   # ('resume'|'pause', cid, running sid or None, clock)
        self.ctxs = {}
        self.sv = [AsyncScopedValue(v) for v in sv_init]
        self.sv_init = list(sv_init)
        self.attr_target = _AttrTarget(sv_init[0] if sv_init else 0)
        self.attr_init = self.attr_target.x
        self.reads = []
        self.in_flush = 0
        self.flush_hook = None              # optional callable(rt, batch) run inside _flush
        self.running = []                   # stack of sids whose code is executing

    def __repr__(self):
        return "<RT>"

    # -- bookkeeping ------------------------------------------------------------------
    def tick(self):
        self.budget -= 1
        if self.budget < 0:
            raise Hang("watchdog: harness object polled too often")

    def ev(self, *e):
        self.clock += 1
        self.events.append(e)
        return self.clock

    def problem(self, prop, text):
        self.problems.append((prop, text))

    def get_batch(self, kind):
        b = self.active.get(kind)
        if b is None or b.is_flushed():
            b = HBatch(self, kind)
            self.active[kind] = b
        return b

    def batch_hash(self, kind, serial):
        k = self.nkinds
        pos = kind if self.hash_order == 0 else (k - 1 - kind)
        if self.hash_order >= 2:
            pos = (kind + self.hash_order - 1) % k
        return pos + k * serial

    # -- scheduler events -------------------------------------------------------------
    def attach(self):
        s = _sched.get_scheduler()
        s.on_before_batch_flush.subscribe(self._before)
        s.on_after_batch_flush.subscribe(self._after)

    def _before(self, batch):
        self.ev("before", getattr(batch, "kind", None), getattr(batch, "serial", None))
        self.sched_events.append(("before", batch))
        if isinstance(batch, HBatch):
            batch.sched_flushes += 1
        for m in self.monitors:
            if m == "c04":
                mon_c04_before(self, batch)
            elif m == "c05":
                mon_c05_before(self, batch)
            elif m == "c06":
                mon_c06_before(self, batch)

    def _after(self, batch):
        self.ev("after", getattr(batch, "kind", None), getattr(batch, "serial", None))
        self.sched_events.append(("after", batch))


class _AttrTarget(object):
    def __init__(self, x):
        self.x = x


# ---------------------------------------------------------------------------------------
# harness batches


STALE_FLUSHES = []      # batches of an already ended computation that were flushed later (C08 histories)


class HBatch(_batching.BatchBase):
    def __init__(self, rt, kind):
        _batching.BatchBase.__init__(self)
        self.rt = rt
        self.kind = kind
        self.serial = rt.serials[kind]
        rt.serials[kind] += 1
        self.flush_calls = 0
        self.sched_flushes = 0
        self._h = rt.batch_hash(kind, self.serial)
        self.announced = False
        self.on_computed.subscribe(self._announce)
        rt.batches.append(self)

    def _announce(self, _):
        self.announced = True

    def __hash__(self):
        return self._h

    def __eq__(self, other):
        return self is other

    def __ne__(self, other):
        return self is not other

    def __repr__(self):
        return "<HBatch %s#%s>" % (self.kind, self.serial)

    # (no __str__ override: str(batch) must be asynq's own BatchBase.__str__, which the dump options call)

    def _try_switch_active_batch(self):
        if self.rt.active.get(self.kind) is self:
            self.rt.active[self.kind] = HBatch(self.rt, self.kind)

    def flush(self):
        """public flush(); optionally (C05: 'the after event fires even when the flush fails') raises after
        delegating, the way a subclass that adds bookkeeping around flush() could"""
        _batching.BatchBase.flush(self)
        rt = self.rt
        if rt.public_flush_raises is not None and rt.public_flush_raises == (self.kind, self.serial):
            raise E(("publicflush", self.kind, self.serial))

    def _cancel(self):
        err = self.error()
        for it in self.items:
            if not _batching.BatchItemBase.is_computed(it):
                self.rt.item_cancel[it.sid] = err

    def get_priority(self):
        rt = self.rt
        if rt.prio_mode == "default":
            return _batching.BatchBase.get_priority(self)
        if rt.prio_mode == "int":
            return rt.prio[self.kind]
        return (rt.prio[self.kind], len(self.items))

    def _flush(self):
        rt = self.rt
        self.flush_calls += 1
        entry = {"kind": self.kind, "serial": self.serial, "items": [it.sid for it in self.items],
                 "raised": None, "clock": rt.ev("flush", self.kind, self.serial),
                 "sched": bool(rt.sched_events and rt.sched_events[-1][0] == "before"
                               and rt.sched_events[-1][1] is self),
                 "running": list(rt.running)}
        idx = len(rt.flush_log)
        rt.flush_log.append(entry)
        for it in self.items:
            rt.item_flush[it.sid] = idx
        if "c06" in rt.monitors:
            mon_c06_flush(rt, self)
        if rt.ended:
            STALE_FLUSHES.append(repr(self))
        if not entry["sched"] and not rt.running and rt.in_flush == 0:
            # nobody asked for this flush: neither the scheduler (no 'before' event) nor user code
            # (no task body or flush body is executing).  It was forced by unwrapping the yielded
            # structure of a task that was resumed while one of its items was still pending.
            rt.problem("c03", "a task was resumed while a batch item it yielded was uncomputed "
                              "(batch %r flushed implicitly by the resumption)" % (self,))
            rt.problem("c04", "batch %r flushed implicitly, outside the scheduler's flush step" % (self,))
        rt.in_flush += 1
        try:
            if rt.flush_hook is not None:
                rt.flush_hook(rt, self)
            to_raise = None
            for it in list(self.items):
                plan = it.plan
                if plan == "ok":
                    # like a real service, the answer of a repeated request is not the first answer:
                    # a batch whose flush body runs twice corrupts the values the tasks receive
                    it.set_value(item_value(it.kind, it.arg) + 1000 * (self.flush_calls - 1))
                elif plan == "err":
                    it.set_error(E(("item", it.sid)))
                elif plan == "err_base":
                    it.set_error(BE(("item", it.sid)))
                elif plan == "unset":
                    pass
                elif plan == "flushraise":
                    if to_raise is None:
                        to_raise = E(("flush", it.sid))
                elif plan == "flushraise_base":
                    if to_raise is None:
                        to_raise = BE(("flush", it.sid))
                elif plan == "cancelself":
                    # the flush body cancels the batch it is flushing (public cancel()) and returns normally:
                    # every item not answered so far fails with that error
                    self.cancel(E(("cancelself", it.sid)))
                    break
                else:
                    raise AssertionError("bad plan")
            if to_raise is not None:
                entry["raised"] = to_raise
                raise to_raise
        finally:
            rt.in_flush -= 1
            rt.ev("flushed", self.kind, self.serial)


class HItem(_batching.BatchItemBase):
    def __init__(self, rt, kind, arg, plan, sid):
        batch = rt.get_batch(kind)
        _batching.BatchItemBase.__init__(self, batch)
        self.rt = rt
        self.kind = kind
        self.arg = arg
        self.plan = plan
        self.sid = sid
        rt.items[sid] = self
        self.on_computed.subscribe(self._oc)

    def _oc(self, _):
        self.rt.item_computed[self.sid] += 1
        # completed "by that flush": after its batch's flush body started and before the batch's
        # own completion was announced (unset items are completed by BatchBase._computed)
        self.completed_by_flush = ((self.sid in self.rt.item_flush) or (self.sid in self.rt.item_cancel)) \
            and not self.batch.announced

    def is_computed(self):
        self.rt.tick()
        return _batching.BatchItemBase.is_computed(self)

    def __repr__(self):
        return "<HItem %s>" % (self.sid,)


# ---------------------------------------------------------------------------------------
# contexts


class RecCtx(AsyncContext):
    """Recording context; optionally raises on its k-th resume / pause."""

    def __init__(self, rt, cid, raise_on=None):
        self.rt = rt
        self.cid = cid
        self.nres = 0
        self.npause = 0
        self.raise_on = raise_on     # ('resume'|'pause', k)
        self.active = False

    def resume(self):
        self.nres += 1
        self.rt.ctx_log.append(("resume", self.cid, tuple(self.rt.running), self.rt.ev("resume", self.cid)))
        self.active = True
        if self.raise_on is not None and self.raise_on[0] == "resume" and self.raise_on[1] == self.nres:
            raise E(("ctx", self.cid, "resume", self.nres))

    def pause(self):
        self.npause += 1
        self.rt.ctx_log.append(("pause", self.cid, tuple(self.rt.running), self.rt.ev("pause", self.cid)))
        self.active = False
        if self.raise_on is not None and self.raise_on[0] == "pause" and self.raise_on[1] == self.npause:
            raise E(("ctx", self.cid, "pause", self.npause))

    def __repr__(self):
        return "<RecCtx %s>" % (self.cid,)


class NACtx(NonAsyncContext):
    def __init__(self, rt, cid):
        self.rt = rt
        self.cid = cid

    def __repr__(self):
        return "<NACtx %s>" % (self.cid,)


def make_ctx(rt, ts, spec):
    """spec: ('rec', cid[, raise_on]) | ('sv', idx, value) | ('attr', value) | ('na', cid)"""
    k = spec[0]
    if k == "rec":
        c = RecCtx(rt, spec[1], spec[2] if len(spec) > 2 else None)
        rt.ctxs[spec[1]] = c
        c.owner = ts.sid
        return c
    if k == "sv":
        return rt.sv[spec[1]].override(spec[2])
    if k == "attr":
        return async_override(rt.attr_target, "x", spec[1])
    if k == "na":
        return NACtx(rt, spec[1])
    raise AssertionError(spec)


# ---------------------------------------------------------------------------------------
# generic task body


class TaskState(object):
    def __init__(self, rt, td, sid):
        self.rt = rt
        self.td = td
        self.sid = sid
        self.trace = []
        self.nyield = 0
        self.kept = {}
        self.last_futs = []
        self.started = False
        self.task_obj = None
        self.finished = False
        self.open_ctx = []      # cids of RecCtx blocks currently open in this task


class _Ret(object):
    def __init__(self, value):
        self.value = value


def _mk_task(rt, td, sid):
    if td.pure:
        t = task_fn_pure(rt, td, sid)
    else:
        t = task_fn.asynq(rt, td, sid)
    reg = rt.tasks.setdefault(sid, {"obj": None, "ts": None, "yielded": False, "td": td})
    reg["obj"] = t
    t.on_computed.subscribe(lambda _t, sid=sid, rt=rt: _task_computed(rt, sid))
    return t


def _task_computed(rt, sid):
    rt.computed_count[sid] += 1
    rt.ev("computed", sid)


def make_slot(rt, ts, slot, idx):
    k = slot[0]
    sid = "%s/%d.%d" % (ts.sid, ts.nyield, idx)
    if k == "none":
        return None
    if k == "const":
        return _futures.ConstFuture(slot[1])
    if k == "item":
        return HItem(rt, slot[1], slot[2], slot[3], sid)
    if k == "task":
        return _mk_task(rt, slot[1], sid)
    if k == "shared":
        key = slot[1]
        if key not in rt.shared:
            rt.shared[key] = _mk_task(rt, slot[2], "S:" + key)
        return rt.shared[key]
    if k == "keep":
        f = make_slot(rt, ts, slot[2], idx)
        ts.kept[slot[1]] = f
        return f
    if k == "reuse":
        return ts.kept[slot[1]]
    if k == "errfut":
        return _futures.ErrorFuture(E(("errfut", slot[1])))
    if k == "lazy":
        if slot[1]:
            v = slot[2]
            return _futures.Future(lambda: v)
        tag = slot[2]

        def prov():
            raise E(("lazy", tag))
        return _futures.Future(prov)
    if k == "obj":
        return _Obj(slot[1])
    raise AssertionError(slot)


class _Obj(object):
    """A yielded object that is not a future."""

    def __init__(self, v):
        self.v = v


def _same_struct(a, b):
    if type(a) is not type(b):
        return False
    if isinstance(a, (list, tuple)):
        return len(a) == len(b) and all(_same_struct(x, y) for x, y in zip(a, b))
    if isinstance(a, dict):
        return list(a.keys()) == list(b.keys()) and all(_same_struct(a[k], b[k]) for k in a)
    return a is b


def _futures_in(futs):
    return [f for f in futs if isinstance(f, _futures.FutureBase)]


def run_node(rt, ts, node):
    """Interprets one node inside the task's generator (used through ``yield from``).
    Returns None, or a _Ret to unwind a `return` out of nested blocks."""
    k = node[0]
    if k == "seq":
        for n in node[1]:
            r = yield from run_node(rt, ts, n)
            if r is not None:
                return r
        return None
    if k == "y":
        tmpl, slots = node[1], node[2]
        futs = []
        orphans = []
        for i, s in enumerate(slots):
            futs.append(make_slot(rt, ts, s, i))
        struct = shape(tmpl, futs)
        n = ts.nyield
        ts.nyield += 1
        real = _futures_in(futs)
        ts.last_futs = real
        fresh = []
        for f, s in zip(futs, slots):
            if isinstance(f, AsyncTask):
                for sid2, reg in rt.tasks.items():
                    if reg["obj"] is f:
                        if not reg["yielded"] and reg["ts"] is None:
                            fresh.append(sid2)
                        reg["yielded"] = True
        rt.running.pop()
        rt.ev("yield", ts.sid, n)
        try:
            got = yield struct
        except (Exception, BE) as e:
            rt.running.append(ts.sid)
            rt.ev("throw", ts.sid, n)
            _post_yield(rt, ts, n, tmpl, slots, futs, fresh, e)
            raise
        rt.running.append(ts.sid)
        rt.ev("step", ts.sid, n + 1)
        _post_yield(rt, ts, n, tmpl, slots, futs, fresh, None)
        if "c01" in rt.monitors:
            # the structure the task yielded is the task's own object: it must come back as a NEW
            # structure of values, the yielded one still holding the futures (it may be shared/reused)
            again = shape(tmpl, futs)
            if not _same_struct(struct, again):
                rt.problem("c01", "the structure yielded by %s at yield %d was modified in place" % (ts.sid, n))
        ts.trace.append(got)
        return None
    if k == "with":
        spec = node[1]
        ctx = make_ctx(rt, ts, spec)
        if spec[0] == "rec":
            ts.open_ctx.append(spec[1])
        try:
            with ctx:
                r = yield from run_node(rt, ts, node[2])
        finally:
            if spec[0] == "rec":
                ts.open_ctx.remove(spec[1])
        return r
    if k == "try":
        mode = node[2]
        try:
            r = yield from run_node(rt, ts, node[1])
            return r
        except Exception as e:
            reraise_control(e)
            ts.trace.append(("caught", desc_of(e)))
            if mode == "ret":
                return _Ret(("caughtret", desc_of(e)))
            if mode == "cont":
                return None
            if mode == "reraise":
                raise
            if mode == "other":
                raise E(("other", ts.sid))
            raise AssertionError(mode)
    if k == "sync":
        spelling, slot = node[1], node[2]
        sid = "%s/s%d" % (ts.sid, ts.nyield)
        ts.nyield += 1
        if slot[0] == "item":
            it = HItem(rt, slot[1], slot[2], slot[3], sid)
            v = it.value()
        else:
            td = slot[1]
            if spelling == 0 and not td.pure:
                rt.tasks.setdefault(sid, {"obj": None, "ts": None, "yielded": True, "td": td})
                rt.wait_stack.append(_FirstTask(rt, sid))
                try:
                    v = task_fn(rt, td, sid)
                finally:
                    rt.wait_stack.pop()
            else:
                t = _mk_task(rt, td, sid)
                rt.tasks[sid]["yielded"] = True
                rt.wait_stack.append(t)
                try:
                    v = t.value()
                finally:
                    rt.wait_stack.pop()
        if "c08" in rt.monitors or "c01" in rt.monitors:
            if _sched.get_active_task() is not ts.task_obj:
                rt.problem("c08", "active task wrong after nested sync call in %s" % ts.sid)
        ts.trace.append(("sync", v))
        return None
    if k == "raise":
        if len(node) > 2 and node[2]:
            raise BE(("raise", node[1]))        # a failure that is not an Exception (like KeyboardInterrupt)
        raise E(("raise", node[1]))
    if k == "read":
        which = node[1]
        if which == "attr":
            v = rt.attr_target.x
        else:
            v = rt.sv[which].get()
        ts.trace.append(("read", v))
        rt.reads.append((ts.sid, which, v))
        return None
    if k == "ret":
        return _Ret(node[1])
    if k == "orphan":
        t = _mk_task(rt, node[1], "%s/o%d" % (ts.sid, ts.nyield))
        ts.kept["orphan%d" % ts.nyield] = t
        return None
    if k == "call":     # ('call', fn) arbitrary harness callback fn(rt, ts)
        node[1](rt, ts)
        return None
    if k == "withpre":
        # ('withpre', idx, outer_value, node): `o = sv.override(sv.get())` - an override object that re-asserts the
        # current value, created BEFORE the enclosing override is entered - then `with sv.override(outer): with o:`
        idx = node[1]
        o = rt.sv[idx].override(rt.sv[idx].get())
        with rt.sv[idx].override(node[2]):
            with o:
                r = yield from run_node(rt, ts, node[3])
        return r
    if k == "overlap":  # ('overlap', specA, specB, inside, between): `with ExitStack() as st: with a: st.enter_context(b);
        #                     inside` -> a is left first, then `between` runs with only b open, then b is left
        import contextlib
        specA, specB = node[1], node[2]
        a = make_ctx(rt, ts, specA)
        b = make_ctx(rt, ts, specB)
        r = None
        try:
            with contextlib.ExitStack() as stack:
                if specA[0] == "rec":
                    ts.open_ctx.append(specA[1])
                try:
                    with a:
                        stack.enter_context(b)
                        if specB[0] == "rec":
                            ts.open_ctx.append(specB[1])
                        r = yield from run_node(rt, ts, node[3])
                finally:
                    if specA[0] == "rec" and specA[1] in ts.open_ctx:
                        ts.open_ctx.remove(specA[1])
                if r is None:
                    r = yield from run_node(rt, ts, node[4])
        finally:
            if specB[0] == "rec" and specB[1] in ts.open_ctx:
                ts.open_ctx.remove(specB[1])
        return r
    if k == "enter":    # ctx.__enter__() without a with-statement (ExitStack style): blocks may overlap
        spec = node[1]
        c = make_ctx(rt, ts, spec)
        ts.kept["ctx:%s" % (node[2],)] = c
        c.__enter__()
        if spec[0] == "rec":
            ts.open_ctx.append(spec[1])
        return None
    if k == "leave":
        c = ts.kept["ctx:%s" % (node[2],)]
        spec = node[1]
        if spec[0] == "rec":
            ts.open_ctx.remove(spec[1])
        c.__exit__(None, None, None)
        return None
    if k == "waitpre":  # wait (synchronously, inside this task) for a task that was created at top level
        t = rt.precreated[node[1]]
        sid = "PRE:%s" % node[1]
        rt.wait_stack.append(t)
        try:
            v = t.value()
        finally:
            rt.wait_stack.pop()
        if _sched.get_active_task() is not ts.task_obj:
            rt.problem("c08", "get_active_task() is not the running task after waiting, inside %s, for a task "
                              "that was created outside it" % ts.sid)
        ts.trace.append(("sync", v))
        return None
    if k == "stash":    # create a task here; it is waited for at top level after this computation
        sid = "STASH:%s" % node[1]
        rt.stash[node[1]] = _mk_task(rt, node[2], sid)
        return None
    if k == "cancel":   # user code cancels the pending batch of a kind (its items fail with the error)
        b = rt.active.get(node[1])
        if b is not None and not b.is_flushed() and b.items:
            rt.ev("cancel", node[1], b.serial)
            b.cancel(E(("cancelled", node[1], b.serial)))
        return None
    raise AssertionError(node)


def _post_yield(rt, ts, n, tmpl, slots, futs, fresh, exc):
    """Monitors evaluated at every resumption (normal or by throw)."""
    mons = rt.monitors
    if "c03" in mons or "c02" in mons:
        for f in futs:
            if isinstance(f, _futures.FutureBase):
                if isinstance(f, HItem):
                    done = _batching.BatchItemBase.is_computed(f)
                else:
                    done = f.is_computed()
                if not done:
                    rt.problem("c03", "task %s resumed at yield %d with an uncomputed future" % (ts.sid, n))
                    if exc is not None:
                        rt.problem("c02", "exception delivered to %s at yield %d before every future yielded "
                                          "alongside it had completed" % (ts.sid, n))
    if "c08" in mons:
        at = _sched.get_active_task()
        if at is not ts.task_obj:
            rt.problem("c08", "get_active_task() is not the running task at %s step %d" % (ts.sid, n + 1))
    if "c03" in mons and tmpl in SEQ_ONLY and len(fresh) > 1:
        pos = []
        for sid2 in fresh:
            if sid2 in rt.started:
                pos.append(rt.started.index(sid2))
        if pos != sorted(pos):
            rt.problem("c03", "tasks yielded together by %s did not start in written order: %s" % (ts.sid, fresh))
    if exc is not None and "c02" in mons:
        reraise_control(exc)
        # first failing slot in structure order decides
        for f in futs:
            if isinstance(f, _Obj):
                if not isinstance(exc, TypeError):
                    rt.problem("c02", "non-future object at %s not reported as TypeError but %r" % (ts.sid, exc))
                break
            if isinstance(f, _futures.FutureBase) and f.is_computed() and f.error() is not None:
                if f.error() is not exc:
                    rt.problem("c02", "exception delivered at %s yield %d is not the first failing "
                                      "future's error instance (%r vs %r)" % (ts.sid, n, exc, f.error()))
                break
        else:
            rt.problem("c02", "exception %r delivered at %s yield %d but no yielded future failed" % (exc, ts.sid, n))
    if "c06" in mons:
        mon_c06_step(rt, ts)


def _body(rt, td, sid):
    ts = TaskState(rt, td, sid)
    reg = rt.tasks.setdefault(sid, {"obj": None, "ts": None, "yielded": True, "td": td})
    if reg["ts"] is not None:
        rt.problem("c03", "task %s started twice" % sid)
    reg["ts"] = ts
    ts.started = True
    ts.task_obj = _sched.get_active_task()
    if reg["obj"] is not None and "c08" in rt.monitors and ts.task_obj is not reg["obj"]:
        rt.problem("c08", "get_active_task() in first step of %s is not the task its creator got" % sid)
    rt.started.append(sid)
    rt.running.append(sid)
    rt.ev("start", sid)
    if "c06" in rt.monitors:
        mon_c06_step(rt, ts)
    try:
        r = yield from run_node(rt, ts, td.body)
    finally:
        if rt.running and rt.running[-1] == sid:
            rt.running.pop()
        ts.finished = True
    val = (td.name, tuple(ts.trace), r.value if r is not None else None)
    if td.ret == "result":
        asynq.result(val)
        return
    return val


@asynq.asynq()
def task_fn(rt, td, sid):
    return (yield from _body(rt, td, sid))


@asynq.asynq(pure=True)
def task_fn_pure(rt, td, sid):
    return (yield from _body(rt, td, sid))


class FalsyReceiver(object):
    """an instance whose truth value is False (an empty container): methods must still be bound to it"""

    def __len__(self):
        return 0

    def __repr__(self):
        return "<FalsyReceiver>"

    @asynq.asynq()
    def m(self, rt, td, sid):
        if not isinstance(self, FalsyReceiver):
            raise TypeError("method body reached without its receiver")
        return (yield from _body(rt, td, sid))


# ---------------------------------------------------------------------------------------
# monitors on scheduler events


def _chk_blocked(rt, t, seen, depth=0):
    """C04: at a flush every uncompleted task of the awaited computation has started and waits,
    directly or through other tasks, on an unflushed batch item."""
    if t.is_computed():
        return
    if id(t) in seen:
        return
    seen.add(id(t))
    reg = None
    for sid, r in rt.tasks.items():
        if r["obj"] is t or (r["ts"] is not None and r["ts"].task_obj is t):
            reg = r
            break
    if reg is None:
        return      # not a harness task (e.g. helper-created): unconstrained
    ts = reg["ts"]
    if ts is None or not ts.started:
        rt.problem("c04", "flush while task %s has not started" % (sid,))
        return
    pend = [f for f in ts.last_futs
            if not (_batching.BatchItemBase.is_computed(f) if isinstance(f, HItem) else f.is_computed())]
    if not pend:
        rt.problem("c04", "flush while task %s is runnable (nothing it yielded is pending)" % (sid,))
        return
    for f in pend:
        if isinstance(f, AsyncTask):
            _chk_blocked(rt, f, seen, depth + 1)
        elif isinstance(f, HItem):
            if f.batch.is_flushed():
                rt.problem("c04", "pending item of a flushed batch at a flush")
        else:
            rt.problem("c04", "flush while a non-batch future yielded by %s is still uncomputed" % (sid,))


def mon_c04_before(rt, batch):
    if rt.wait_stack:
        _chk_blocked(rt, rt.wait_stack[0], set())


def mon_c05_before(rt, batch):
    if not isinstance(batch, HBatch):
        return
    if _futures.FutureBase.is_computed(batch):
        rt.problem("c05", "scheduler flushes an already flushed or cancelled batch")
    if not batch.items:
        rt.problem("c05", "scheduler flushes an empty batch")
    if rt.wait_stack and rt.wait_stack[-1].is_computed():
        rt.problem("c05", "scheduler flushes after the awaited computation completed")
    if "c05prio" in rt.monitors:
        pr = batch.get_priority()
        for q in rt.batches:
            if q is batch or q.is_flushed() or not q.items:
                continue
            if not any(rt_item_yielded(rt, it) for it in q.items):
                continue
            if pr < q.get_priority():
                rt.problem("c05", "flushed batch %r has lower priority than pending %r" % (batch, q))


def rt_item_yielded(rt, it):
    return getattr(it, "yielded", True)


# -- C06 -------------------------------------------------------------------------------


def _awaits_only_through(rt, owner_sid, sid):
    """True if task `sid` is a descendant of owner (by structural id) -> awaited only through it
    (harness programs for C06 never share tasks between awaiters)."""
    return sid == owner_sid or sid.startswith(owner_sid + "/")


def mon_c06_step(rt, ts):
    """At a step of task ts: contexts opened by ts or by a task awaiting it only through the
    chain must be active; contexts of unrelated tasks must be paused."""
    for cid, c in rt.ctxs.items():
        owner = c.owner
        reg = rt.tasks.get(owner)
        ots = reg["ts"] if reg else None
        if ots is None or cid not in ots.open_ctx:
            continue
        if _awaits_only_through(rt, owner, ts.sid):
            if ts.sid != owner and "/s" in ts.sid[len(owner):]:
                continue    # spawned by a synchronous call of a descendant: unconstrained
            if ts.sid.startswith("S:"):
                continue
            if not c.active:
                rt.problem("c06", "context %s of %s is paused while %s (awaited only by it) runs" % (cid, owner, ts.sid))
        else:
            if ts.sid.startswith("S:") or owner.startswith("S:"):
                continue
            if _awaits_only_through(rt, ts.sid, owner):
                # ts is an ancestor of the owner: the owner is suspended -> must be paused
                pass
            if c.active:
                # a running *sync-called* nest below the owner keeps it active legitimately
                if any(_awaits_only_through(rt, owner, r) for r in rt.running):
                    continue
                rt.problem("c06", "context %s of %s is active while unrelated task %s runs" % (cid, owner, ts.sid))


def mon_c06_flush(rt, batch):
    for cid, c in rt.ctxs.items():
        owner = c.owner
        reg = rt.tasks.get(owner)
        ots = reg["ts"] if reg else None
        if ots is None or cid not in ots.open_ctx:
            continue
        if any(_awaits_only_through(rt, owner, r) for r in rt.running):
            continue        # flush nested in a synchronous call under the owner: unconstrained
        if c.active:
            rt.problem("c06", "context %s of %s is active during a flush while its task is suspended" % (cid, owner))


def mon_c06_before(rt, batch):
    pass


# ---------------------------------------------------------------------------------------
# running a program on the real scheduler


def reset_globals():
    _sched.reset()
    _tools.DeduplicateDecorator.tasks.clear()
    _batching._debug_batch_state.batches.clear()
    _profiler.reset()


def run_root(rt, td, conv=0):
    """Runs root task `td` with calling convention conv; returns ('v', value) or ('e', exc)."""
    rt.attach()
    try:
        if conv == 0:
            t = _mk_task(rt, td, "0")
            rt.tasks["0"]["yielded"] = True
            rt.wait_stack.append(t)
            try:
                v = t.value()
            finally:
                rt.wait_stack.pop()
        elif conv == 1:
            rt.tasks["0"] = {"obj": None, "ts": None, "yielded": True, "td": td}
            rt.wait_stack.append(_FirstTask(rt, "0"))
            try:
                v = task_fn(rt, td, "0")
            finally:
                rt.wait_stack.pop()
        elif conv == 2:
            # `yield fn.asynq()` from a wrapper task
            t = _mk_task(rt, TaskD("wrap", Y(0, TASK(td))), "W")
            rt.tasks["W"]["yielded"] = True
            rt.wait_stack.append(t)
            try:
                w = t.value()
            finally:
                rt.wait_stack.pop()
            v = w[1][0]
        elif conv == 3:
            t = asynq.async_call.asynq(task_fn, rt, td, "0")
            rt.tasks["0"] = {"obj": t, "ts": None, "yielded": True, "td": td}
            rt.wait_stack.append(t)
            try:
                v = t.value()
            finally:
                rt.wait_stack.pop()
        elif conv == 4:
            # a method of a falsy instance, called synchronously
            rt.tasks["0"] = {"obj": None, "ts": None, "yielded": True, "td": td}
            rt.wait_stack.append(_FirstTask(rt, "0"))
            try:
                v = FalsyReceiver().m(rt, td, "0")
            finally:
                rt.wait_stack.pop()
        elif conv == 5:
            # the same method through .asynq(...).value()
            t = FalsyReceiver().m.asynq(rt, td, "0")
            rt.tasks["0"] = {"obj": t, "ts": None, "yielded": True, "td": td}
            rt.wait_stack.append(t)
            try:
                v = t.value()
            finally:
                rt.wait_stack.pop()
        else:
            raise AssertionError(conv)
        return ("v", v)
    except (Exception, BE) as e:
        reraise_control(e)
        return ("e", e)


class _FirstTask(object):
    """Stand-in for 'the task being waited for' when the root is called as fn(...) and the
    harness holds no handle: resolves lazily to the task object recorded by the body."""

    def __init__(self, rt, sid):
        self.rt = rt
        self.sid = sid

    def _t(self):
        reg = self.rt.tasks.get(self.sid)
        ts = reg["ts"] if reg else None
        return ts.task_obj if ts is not None else None

    def is_computed(self):
        t = self._t()
        return t.is_computed() if t is not None else False


def root_sid(conv):
    return "W/0.0" if conv == 2 else "0"


# ---------------------------------------------------------------------------------------
# reference interpreter


class RefErr(Exception):
    def __init__(self, desc):
        Exception.__init__(self, desc)
        self.desc = desc


class RefAbort(Exception):
    """The task as a whole fails (NonAsyncContext suspended): not catchable inside the task."""

    def __init__(self, desc):
        Exception.__init__(self, desc)
        self.desc = desc


class Ref(object):
    def __init__(self, rt, sv_init=(0, 0)):
        self.rt = rt                    # only the *flush log* of the real run is consulted
        self.shared = {}
        self.scope = []                 # dynamic scope: list of (which, value)
        self.sv_init = list(sv_init)
        self.evaluated = []             # sids of tasks evaluated
        self.pre = {}                   # key -> TaskD of tasks created at top level
        self.blocked = {}               # sid -> whether the task had to wait for a flush
        self.na_depth = 0
        self.pause_raisers = []
        self.resume_raisers = []

    def lookup(self, which):
        for ent in reversed(self.scope):
            if ent[0] == which:
                return ent[1]
        if which == "attr":
            return self.sv_init[0] if self.sv_init else 0
        return self.sv_init[which]

    def item_outcome(self, kind, arg, plan, sid):
        if sid in self.rt.item_cancel:
            return ("e", desc_of(self.rt.item_cancel[sid]))
        if plan == "ok":
            return ("v", item_value(kind, arg))
        if plan == "err":
            return ("e", ("E", ("item", sid)))
        if plan == "err_base":
            return ("e", ("BE", ("item", sid)))
        # unset / flushraise: consult the real flush log for the batch this item travelled in
        idx = self.rt.item_flush.get(sid)
        raised = self.rt.flush_log[idx]["raised"] if idx is not None else None
        if raised is not None:
            return ("e", desc_of(raised))
        if plan in ("flushraise", "flushraise_base", "cancelself"):
            return ("e", ("?",))        # the flush was expected to raise / cancel but did not: mismatch
        return ("e", ("A",))

    def slot(self, st, slot, idx):
        """-> (outcome, blocked, depth)"""
        k = slot[0]
        sid = "%s/%d.%d" % (st["sid"], st["nyield"], idx)
        if k == "none":
            return ("v", None), False, 0
        if k == "const":
            return ("v", slot[1]), False, 0
        if k == "item":
            return self.item_outcome(slot[1], slot[2], slot[3], sid), True, 1
        if k == "task":
            return self.task(slot[1], sid)
        if k == "shared":
            key = slot[1]
            if key not in self.shared:
                self.shared[key] = self.task(slot[2], "S:" + key)
                return self.shared[key]
            return self.shared[key][0], False, 0
        if k == "keep":
            o = self.slot(st, slot[2], idx)
            st["kept"][slot[1]] = o
            return o
        if k == "reuse":
            return st["kept"][slot[1]][0], False, 0
        if k == "errfut":
            return ("e", ("E", ("errfut", slot[1]))), False, 0
        if k == "lazy":
            if slot[1]:
                return ("v", slot[2]), False, 0
            return ("e", ("E", ("lazy", slot[2]))), False, 0
        if k == "obj":
            return ("e", ("T",)), False, 0
        raise AssertionError(slot)

    def task(self, td, sid):
        """-> (outcome, blocked, depth).  outcome = ('v', value) | ('e', desc)"""
        st = {"sid": sid, "nyield": 0, "trace": [], "kept": {}, "blocked": False, "depth": 0}
        self.evaluated.append(sid)
        saved_scope = list(self.scope)
        saved_na = self.na_depth
        saved_pr = self.pause_raisers
        self.pause_raisers = []
        saved_rr = self.resume_raisers
        self.resume_raisers = []
        self.na_depth = 0
        try:
            r = self.node(st, td.body)
            val = (td.name, tuple(st["trace"]), r.value if r is not None else None)
            out = ("v", val)
        except RefErr as e:
            out = ("e", e.desc)
        except RefAbort as e:
            out = ("e", e.desc)
        finally:
            self.scope = saved_scope
            self.na_depth = saved_na
            self.pause_raisers = saved_pr
            self.resume_raisers = saved_rr
        self.blocked[sid] = st["blocked"]
        return out, st["blocked"], st["depth"]

    def node(self, st, node):
        k = node[0]
        if k == "seq":
            for n in node[1]:
                r = self.node(st, n)
                if r is not None:
                    return r
            return None
        if k == "y":
            tmpl, slots = node[1], node[2]
            outs = []
            blocked = False
            dmax = 0
            for i, s in enumerate(slots):
                o, b, d = self.slot(st, s, i)
                outs.append(o)
                blocked = blocked or b
                dmax = max(dmax, d)
            st["depth"] += dmax
            st["nyield"] += 1
            if blocked:
                st["blocked"] = True
                if self.na_depth > 0:
                    raise RefAbort(("A",))
                if self.pause_raisers:
                    # a context whose first pause() raises: the task fails when it is suspended inside the block
                    raise RefAbort(self.pause_raisers[-1])
                if self.resume_raisers:
                    # a context whose second resume() raises (the first one is __enter__): the task fails when it
                    # is continued after having been suspended inside the block; the outermost one is resumed first
                    raise RefAbort(self.resume_raisers[0])
            for o in outs:
                if o[0] == "e":
                    raise RefErr(o[1])
            st["trace"].append(shape(tmpl, [o[1] for o in outs]))
            return None
        if k == "with":
            spec = node[1]
            pushed = False
            if spec[0] == "sv":
                self.scope.append((spec[1], spec[2]))
                pushed = True
            elif spec[0] == "attr":
                self.scope.append(("attr", spec[1]))
                pushed = True
            elif spec[0] == "na":
                self.na_depth += 1
            praise = spec[0] == "rec" and len(spec) > 2 and spec[2] is not None and spec[2] == ("pause", 1)
            if praise:
                self.pause_raisers.append(("E", ("ctx", spec[1], "pause", 1)))
            rraise = spec[0] == "rec" and len(spec) > 2 and spec[2] is not None and spec[2] == ("resume", 2)
            if rraise:
                self.resume_raisers.append(("E", ("ctx", spec[1], "resume", 2)))
            try:
                try:
                    r = self.node(st, node[2])
                except RefErr:
                    if praise:
                        # the block is left by an exception: __exit__ pauses the context for the first time, that
                        # pause raises, and its exception replaces the one that was propagating
                        self.pause_raisers.pop()
                        praise = False
                        raise RefErr(("E", ("ctx", spec[1], "pause", 1)))
                    raise
                if praise:
                    # never suspended inside the block: the first pause is the one of __exit__, an ordinary
                    # exception in the body
                    self.pause_raisers.pop()
                    praise = False
                    raise RefErr(("E", ("ctx", spec[1], "pause", 1)))
                return r
            finally:
                if praise:
                    self.pause_raisers.pop()
                if rraise:
                    self.resume_raisers.pop()
                if pushed:
                    self.scope.pop()
                if spec[0] == "na":
                    self.na_depth -= 1
        if k == "try":
            mode = node[2]
            try:
                return self.node(st, node[1])
            except RefErr as e:
                if e.desc[0] == "BE":
                    raise           # `except Exception` does not catch a BaseException-derived failure
                st["trace"].append(("caught", e.desc))
                if mode == "ret":
                    return _Ret(("caughtret", e.desc))
                if mode == "cont":
                    return None
                if mode == "reraise":
                    raise
                if mode == "other":
                    raise RefErr(("E", ("other", st["sid"])))
                raise AssertionError(mode)
        if k == "sync":
            slot = node[2]
            sid = "%s/s%d" % (st["sid"], st["nyield"])
            st["nyield"] += 1
            if slot[0] == "item":
                o = self.item_outcome(slot[1], slot[2], slot[3], sid)
            else:
                saved = self.na_depth
                o, _b, _d = self.task(slot[1], sid)
                self.na_depth = saved
            if o[0] == "e":
                raise RefErr(o[1])
            st["trace"].append(("sync", o[1]))
            return None
        if k == "raise":
            raise RefErr(("BE" if len(node) > 2 and node[2] else "E", ("raise", node[1])))
        if k == "read":
            st["trace"].append(("read", self.lookup(node[1])))
            return None
        if k == "ret":
            return _Ret(node[1])
        if k == "orphan":
            return None
        if k in ("call", "cancel", "stash"):
            return None
        if k == "withpre":
            cur = self.lookup(node[1])
            self.scope.append((node[1], node[2]))
            self.scope.append((node[1], cur))
            try:
                return self.node(st, node[3])
            finally:
                self.scope.pop()
                self.scope.pop()
        if k == "overlap":
            specA, specB = node[1], node[2]

            def push(spec):
                if spec[0] == "sv":
                    self.scope.append((spec[1], spec[2]))
                    return True
                if spec[0] == "attr":
                    self.scope.append(("attr", spec[1]))
                    return True
                return False
            pa = push(specA)
            pb = push(specB)
            try:
                r = self.node(st, node[3])
            except BaseException:
                if pb:
                    self.scope.pop()
                if pa:
                    self.scope.pop()
                raise
            # a is left first: remove a's entry (it is below b's)
            if pa:
                self.scope.pop(-2 if pb else -1)
            try:
                if r is None:
                    r = self.node(st, node[4])
            finally:
                if pb:
                    self.scope.pop()
            return r
        if k == "enter":
            spec = node[1]
            if spec[0] == "sv":
                self.scope.append((spec[1], spec[2], node[2]))
            elif spec[0] == "attr":
                self.scope.append(("attr", spec[1], node[2]))
            return None
        if k == "leave":
            self.scope = [x for x in self.scope if not (len(x) > 2 and x[2] == node[2])]
            return None
        if k == "waitpre":
            o, _b, _d = self.task(self.pre[node[1]], "PRE:%s" % node[1])
            if o[0] == "e":
                raise RefErr(o[1])
            st["trace"].append(("sync", o[1]))
            return None
        raise AssertionError(node)


# ---------------------------------------------------------------------------------------
# the common oracle


def outcome_desc(o):
    if o[0] == "v":
        return o
    return ("e", desc_of(o[1]))


class _NullCtx(AsyncContext):
    def resume(self):
        pass

    def pause(self):
        pass


_PRELUDE_SV = AsyncScopedValue(0)


@asynq.asynq()
def _prelude_task():
    with _NullCtx():
        with _PRELUDE_SV.override(1):
            yield asynq.ConstFuture(0)
    return 0


def prelude():
    """An earlier, unrelated computation on this thread (contexts, an override), followed by a scheduler reset: every
    checked program runs as 'a later computation after a reset', never as the first thing the process does - so state
    that asynq keeps from an earlier computation shows in every path and in the concrete replay alike."""
    try:
        _prelude_task()
    except Exception as e:
        reraise_control(e)
    reset_globals()


def check_program(td, props, nkinds=2, prio=None, prio_mode="tuple", hash_order=0, conv=0,
                  sv_init=(0, 0), tree_single_kind=False, expect_flushes=None, budget=4000,
                  flush_hook=None, sig=None, precreate=None, public_flush_raises=None, options=None):
    """Runs `td` on the real scheduler and on the reference; returns True iff every monitor of
    the requested properties held.  `props` is a set of monitor names."""
    rec.clear_fail()
    reset_globals()
    prelude()
    rt = RT(nkinds=nkinds, prio=prio, prio_mode=prio_mode, hash_order=hash_order, budget=budget,
            sv_init=sv_init, monitors=props)
    rt.flush_hook = flush_hook
    rt.public_flush_raises = public_flush_raises
    optctx = None
    if options:
        from harness import c20 as _c20
        optctx = _c20.options(set(_c20.OPTS.index(o) for o in options), False)
        optctx.__enter__()
    try:
        for key, ptd in (precreate or {}).items():
            rt.precreated[key] = _mk_task(rt, ptd, "PRE:%s" % key)
            rt.tasks["PRE:%s" % key]["yielded"] = True
        real = run_root(rt, td, conv)
        ok = judge(rt, td, real, props, conv, sv_init, expect_flushes, precreate)
        if ok and rt.stash:
            ok = _after_stash(rt, props)
    finally:
        if optctx is not None:
            optctx.__exit__(None, None, None)
        reset_globals()
    nflush = len(rt.flush_log)
    rec.wit("paths")
    if nflush:
        rec.wit("paths_with_flush")
    if nflush > 1:
        rec.wit("paths_with_2+_flushes")
    if real[0] == "e":
        rec.wit("root_failed")
    if any(("caught",) == tuple(x[:1]) for reg in rt.tasks.values() if reg["ts"] is not None
           for x in reg["ts"].trace if isinstance(x, tuple) and x and x[0] == "caught"):
        rec.wit("caught_in_task")
    shape_sig = (sig, tuple((e[0],) + tuple(x for x in e[1:] if isinstance(x, (str, int, bool)) and not hasattr(x, "var"))
                            for e in rt.events if e[0] in ("flush", "start", "before")))
    rec.done(shape_sig, nontrivial=nflush > 0)
    return ok


def _after_stash(rt, props):
    """Tasks created inside the computation are waited for at top level afterwards."""
    rt.attach()
    try:
        for key, t in rt.stash.items():
            try:
                t.value()
            except (Exception, BE) as e:
                reraise_control(e)
            if "c08" in props:
                if _sched.get_active_task() is not None:
                    return rec.fail("get_active_task() is not None at top level after waiting for a task that "
                                    "was created inside another task")
                if len(_sched.get_scheduler()._tasks) != 0:
                    return rec.fail("scheduler retains tasks after a top-level wait for a stashed task")
        for p, text in rt.problems:
            if p in props:
                return rec.fail("%s: %s" % (p, text))
        return True
    finally:
        detach(rt)


def judge(rt, td, real, props, conv, sv_init, expect_flushes, precreate=None):
    ref = Ref(rt, sv_init)
    ref.pre = dict(precreate or {})
    exp, _blk, ref_depth = ref.task(td, root_sid(conv))
    if expect_flushes == "depth":
        expect_flushes = ref_depth
    got = outcome_desc(real)
    ok = True
    if ("c01" in props) or ("c02" in props) or ("c07v" in props) or ("c06v" in props):
        if got[0] != exp[0]:
            return rec.fail("outcome kind differs: real %r, sequential reference %r" % (got, exp))
        if got[1] != exp[1]:
            return rec.fail("outcome differs: real %r, sequential reference %r" % (got, exp))
    if "c02" in props and real[0] == "e":
        # uncaught -> the root task's own error() is the same object value() raised
        reg = rt.tasks.get(root_sid(conv))
        if reg and reg["obj"] is not None and reg["obj"].is_computed():
            if reg["obj"].error() is not real[1]:
                return rec.fail("value() raised %r but the task's error() is %r" % (real[1], reg["obj"].error()))
    if "c03" in props:
        if got == ("e", ("HANG",)):
            return rec.fail("watchdog: computation did not terminate")
        for sid in ref.evaluated:
            reg = rt.tasks.get(sid)
            if reg is None or reg["obj"] is None:
                continue
            if not reg["obj"].is_computed():
                # a task abandoned because its awaiter failed while suspended is not awaited any more
                if not _abandoned(rt, ref, sid):
                    return rec.fail("task %s awaited by the computation is not computed at the end" % sid)
            if rt.computed_count[sid] > 1:
                return rec.fail("task %s completed %d times" % (sid, rt.computed_count[sid]))
        for sid, reg in rt.tasks.items():
            if "/o" in sid and reg["ts"] is not None:
                return rec.fail("task %s was created but never yielded, yet it started" % sid)
    if "c04" in props and expect_flushes is not None:
        n = len(rt.flush_log)
        if n != expect_flushes:
            return rec.fail("single-kind program performed %d flushes; its longest chain of "
                            "dependent requests is %d" % (n, expect_flushes))
    if "c05" in props:
        for b in rt.batches:
            if b.flush_calls > 1:
                return rec.fail("batch %r flushed %d times" % (b, b.flush_calls))
        for sid, it in rt.items.items():
            if rt.item_computed[sid] > 1:
                return rec.fail("item %s completed %d times" % (sid, rt.item_computed[sid]))
            if _batching.BatchItemBase.is_computed(it) and sid in rt.item_flush:
                if not getattr(it, "completed_by_flush", True):
                    return rec.fail("item %s was not completed by its batch's flush" % sid)
        if not _paired(rt.sched_events):
            return rec.fail("before/after flush events are not paired: %r" % (
                [(k, repr(b)) for k, b in rt.sched_events],))
    if "c08" in props:
        s = _sched.get_scheduler()
        if _sched.get_active_task() is not None:
            return rec.fail("get_active_task() is not None after the outermost call returned")
        if len(s._tasks) != 0:
            return rec.fail("scheduler retains %d tasks after the computation ended" % len(s._tasks))
    if "c07" in props:
        for i, sv in enumerate(rt.sv):
            if sv.get() != rt.sv_init[i]:
                return rec.fail("scoped value %d not restored after the computation: %r != %r" % (
                    i, sv.get(), rt.sv_init[i]))
        if rt.attr_target.x != rt.attr_init:
            return rec.fail("async_override attribute not restored after the computation")
        if not _bracketed(rt.ctx_log):
            return rec.fail("resume/pause events are not properly nested: %r" % (
                [(k, c) for k, c, _r, _t in rt.ctx_log],))
    if "c06" in props:
        for cid, c in rt.ctxs.items():
            seq = [k for k, c2, _r, _t in rt.ctx_log if c2 == cid]
            if not _alternates(seq):
                return rec.fail("context %s resume/pause do not strictly alternate from resume to "
                                "pause: %r" % (cid, seq))
    for p, text in rt.problems:
        if p in props or (p == "c05" and "c05prio" in props) or (p == "c08" and "c01" in props and False):
            return rec.fail("%s: %s" % (p, text))
    return ok


def _abandoned(rt, ref, sid):
    return False


def _paired(evs):
    stack = []
    for k, b in evs:
        if k == "before":
            stack.append(b)
        else:
            if not stack or stack[-1] is not b:
                return False
            stack.pop()
    return not stack


def _alternates(seq):
    exp = "resume"
    for k in seq:
        if k != exp:
            return False
        exp = "pause" if exp == "resume" else "resume"
    return exp == "resume"      # empty or ends with a pause


def _bracketed(log):
    stack = []
    for k, cid, _r, _t in log:
        if k == "resume":
            stack.append(cid)
        else:
            if not stack or stack[-1] != cid:
                return False
            stack.pop()
    return not stack


# ---------------------------------------------------------------------------------------
# histories: several computations one after another on the same thread / scheduler (C08)


def detach(rt):
    s = _sched.get_scheduler()
    try:
        s.on_before_batch_flush.unsubscribe(rt._before)
        s.on_after_batch_flush.unsubscribe(rt._after)
    except Exception:
        pass


def check_history(comps, sig=None):
    """comps: list of dicts(td=..., props=set, compare=bool, nkinds, prio, hash_order, conv, setup, teardown).
    Runs them in sequence WITHOUT resetting the scheduler in between and checks C08 hygiene after
    each, plus the full oracle of every computation flagged compare=True."""
    rec.clear_fail()
    reset_globals()
    del STALE_FLUSHES[:]
    ok = True
    nfl = 0
    try:
        for i, c in enumerate(comps):
            if c.get("check_stale") and STALE_FLUSHES:
                return rec.fail("computation %d: batch %s of an earlier computation (which had ended with the "
                                "scheduler reset) was flushed during a later computation" % (i, STALE_FLUSHES[0]))
            props = set(c.get("props", ())) | {"c08"}
            rt = RT(nkinds=c.get("nkinds", 2), prio=c.get("prio"), prio_mode=c.get("prio_mode", "tuple"),
                    hash_order=c.get("hash_order", 0), budget=c.get("budget", 4000),
                    sv_init=c.get("sv_init", (0, 0)), monitors=props)
            rt.flush_hook = c.get("flush_hook")
            if c.get("setup"):
                c["setup"]()
            try:
                real = run_root(rt, c["td"], c.get("conv", 0))
            finally:
                if c.get("teardown"):
                    c["teardown"]()
                detach(rt)
            rt.ended = True
            if c.get("no_stale") is not None:
                pass
            nfl += len(rt.flush_log)
            if real[0] == "e":
                rec.wit("computation_failed")
                if isinstance(real[1], RuntimeError):
                    rec.wit("runtime_error")
            if not c.get("compare", True):
                # only hygiene is asserted for this computation
                props = {"c08"}
                s = _sched.get_scheduler()
                if _sched.get_active_task() is not None:
                    return rec.fail("computation %d: get_active_task() is not None after the outermost call "
                                    "ended with %r" % (i, outcome_desc(real)))
                if len(s._tasks) != 0:
                    return rec.fail("computation %d: scheduler retains %d tasks after the computation ended "
                                    "with %r" % (i, len(s._tasks), outcome_desc(real)))
                for p, text in rt.problems:
                    if p == "c08":
                        return rec.fail("computation %d: %s" % (i, text))
                if real[0] == "e" and not isinstance(real[1], (Exception, BE)):
                    return rec.fail("computation %d ended with a non-Exception %r" % (i, real[1]))
            else:
                if not judge(rt, c["td"], real, props | {"c01"}, c.get("conv", 0), c.get("sv_init", (0, 0)),
                             c.get("expect_flushes")):
                    rec.LAST_FAIL[0] = "computation %d of the history: %s" % (i, rec.LAST_FAIL[0])
                    return False
        if comps and comps[-1].get("check_stale_after") and STALE_FLUSHES:
            return rec.fail("batch %s of an earlier computation, ended by the runaway-recursion RuntimeError, was "
                            "flushed during the next computation" % (STALE_FLUSHES[0],))
    finally:
        reset_globals()
    rec.wit("paths")
    rec.done(sig, nontrivial=nfl > 0)
    return ok
