#!/usr/bin/env python3
"""Seeded-change tooling.
  confirm <srcdir> <name> <property>   : verify a candidate change in a scratch worktree (build, baseline
                                         suite, demo fails with / passes without), then store it as
                                         /verif/seeded/<name>/ {patch.diff, demo.py, meta.json}
  detect <name> [<PID> ...] [--tier T] : apply seeded/<name>/patch.diff to /repo, run the checks, undo
"""
import json
import os
import re
import shutil
import subprocess
import sys
import time

VERIF = os.path.dirname(os.path.dirname(os.path.abspath(__file__)))
REPO = "/repo"
PY = "/venv/bin/python"


def sh(cmd, cwd=None, timeout=3600):
    p = subprocess.run(cmd, shell=True, cwd=cwd, stdout=subprocess.PIPE, stderr=subprocess.STDOUT, text=True,
                       timeout=timeout)
    return p.returncode, p.stdout


def confirm(src, name, prop):
    wt = "/tmp/mut/wt-%s" % name
    sh("git -C %s worktree remove --force %s" % (REPO, wt))
    rc, out = sh("git -C %s worktree add -q --detach %s HEAD" % (REPO, wt))
    assert rc == 0, out
    res = {"name": name, "property": prop, "source": src}
    try:
        patch = os.path.join(src, "patch.diff")
        demo = os.path.join(src, "demo.py")
        rc, out = sh("git apply --check %s" % patch, cwd=wt)
        if rc != 0:
            res["error"] = "patch does not apply: " + out[-500:]
            return res
        # clean tree first
        rc, out = sh("%s setup.py build_ext --inplace -j 16" % PY, cwd=wt)
        res["clean_build"] = rc
        rc, out = sh("%s %s" % (PY, demo), cwd=wt)
        res["demo_clean_rc"] = rc
        res["demo_clean_tail"] = out[-300:]
        sh("git apply %s" % patch, cwd=wt)
        rc, out = sh("%s setup.py build_ext --inplace -j 16" % PY, cwd=wt)
        res["mut_build"] = rc
        rc, out = sh("%s -m pytest -q -p no:cacheprovider --timeout=900 asynq" % PY, cwd=wt)
        m = re.search(r"(\d+) failed, (\d+) passed", out) or re.search(r"(\d+) passed", out)
        res["suite"] = out.strip().splitlines()[-1]
        failed = re.findall(r"^FAILED (\S+)", out, re.M)
        res["suite_failed"] = failed
        rc, out = sh("%s %s" % (PY, demo), cwd=wt)
        res["demo_mut_rc"] = rc
        res["demo_mut_tail"] = out[-500:]
        res["ok"] = (res["clean_build"] == 0 and res["mut_build"] == 0 and res["demo_clean_rc"] == 0
                     and res["demo_mut_rc"] != 0 and failed == ["asynq/tests/test_pyright.py::test_return_type"]
                     and "104 passed" in res["suite"])
        if res["ok"]:
            dst = os.path.join(VERIF, "seeded", name)
            os.makedirs(dst, exist_ok=True)
            shutil.copy(patch, os.path.join(dst, "patch.diff"))
            shutil.copy(demo, os.path.join(dst, "demo.py"))
            notes = ""
            if os.path.exists(os.path.join(src, "notes.md")):
                notes = open(os.path.join(src, "notes.md")).read()
                shutil.copy(os.path.join(src, "notes.md"), os.path.join(dst, "notes.md"))
            meta = {"name": name, "breaks_property": prop, "origin": "independent sub-agent given only the property text",
                    "confirmed": {"built_cython": True, "suite": res["suite"], "demo_on_clean_tree": "exit 0",
                                  "demo_on_changed_tree": "exit %d" % res["demo_mut_rc"],
                                  "demo_output_changed_tree": res["demo_mut_tail"][-300:],
                                  "commands": ["git apply patch.diff", "python setup.py build_ext --inplace",
                                               "python -m pytest -q asynq", "python demo.py"],
                                  "repo_commit": sh("git -C %s rev-parse --short HEAD" % REPO)[1].strip()},
                    "needs_to_manifest": "see notes.md", "detected_by": {}}
            with open(os.path.join(dst, "meta.json"), "w") as f:
                json.dump(meta, f, indent=1)
        return res
    finally:
        sh("git -C %s worktree remove --force %s" % (REPO, wt))
        shutil.rmtree(wt, ignore_errors=True)


def detect(name, pids, tier="quick"):
    dst = os.path.join(VERIF, "seeded", name)
    patch = os.path.join(dst, "patch.diff")
    rc, out = sh("git -C %s status --porcelain --untracked-files=no" % REPO)
    assert out.strip() == "", "/repo has uncommitted changes: " + out
    rc, out = sh("git -C %s apply %s" % (REPO, patch))
    assert rc == 0, out
    results = {}
    try:
        for pid in pids:
            t0 = time.time()
            # (evidence of a run against a changed tree goes to a scratch directory: /verif/evidence only ever holds
            #  runs against /repo as it is)
            rc, out = sh("VERIF_EVIDENCE_DIR=/tmp/asynq-verif-seeded-evidence ./run check %s --tier %s" % (pid, tier),
                         cwd=VERIF, timeout=7200)
            viol = [l for l in out.splitlines() if l.startswith("VIOLATION")]
            detail = [l for l in out.splitlines() if l.startswith("  ")][:3]
            results[pid] = {"exit": rc, "violations": len(viol), "first": detail, "wall_s": round(time.time() - t0),
                            "summary": [l for l in out.splitlines() if " tier=" in l][-1:]}
            print(name, pid, "exit", rc, "violations", len(viol), detail[:2], flush=True)
    finally:
        sh("git -C %s checkout -- ." % REPO)
    meta_p = os.path.join(dst, "meta.json")
    meta = json.load(open(meta_p))
    for pid, r in results.items():
        meta["detected_by"]["%s/%s" % (pid, tier)] = r
    json.dump(meta, open(meta_p, "w"), indent=1)
    return results


if __name__ == "__main__":
    if sys.argv[1] == "confirm":
        r = confirm(sys.argv[2], sys.argv[3], sys.argv[4])
        print(json.dumps(r, indent=1))
    elif sys.argv[1] == "detect":
        tier = "quick"
        args = sys.argv[2:]
        if "--tier" in args:
            i = args.index("--tier")
            tier = args[i + 1]
            del args[i:i + 2]
        detect(args[0], args[1:], tier)
