"""Writes seeded/README.md from seeded/*/meta.json and selftest/history.json."""
import glob, json, os, re
V = os.path.dirname(os.path.dirname(os.path.abspath(__file__)))
hist = json.load(open(os.path.join(V, "selftest", "history.json")))
rows = []
for d in sorted(glob.glob(os.path.join(V, "seeded", "*", "meta.json"))):
    m = json.load(open(d))
    name = m["name"]
    patch = open(os.path.join(os.path.dirname(d), "patch.diff")).read()
    files = sorted(set(re.findall(r"^\+\+\+ b/(\S+)", patch, re.M)))
    hunks = re.findall(r"^@@ .* @@ ?(.*)$", patch, re.M)
    det = m.get("detected_by", {})
    best = None
    for k, r in det.items():
        if r.get("exit") == 1:
            best = (k, r)
    h = hist.get(name, {})
    if best:
        first = " / ".join(x.strip() for x in best[1].get("first", [])[:2])[:230]
        rows.append((name, m["breaks_property"], ", ".join(files), h.get("what", ""), h.get("first_run", ""), best[0], first))
    else:
        rows.append((name, m["breaks_property"], ", ".join(files), h.get("what", ""), h.get("first_run", ""), "NOT DETECTED", ""))
out = ["# Seeded changes", "",
       "Each directory holds `patch.diff` (apply with `git -C /repo apply`), `demo.py` (fails with the change, passes "
       "without), `notes.md` (the author's notes) and `meta.json` (what was confirmed, which check caught it).  All were "
       "written by independent sub-agents that saw only the property text; all build as Cython extensions and pass "
       "the 104 baseline tests.  `selftest/seedtool.py detect <name> <ID>` applies one, runs the check, and undoes it.",
       "", "| name | property | files | what it changes | first run of the check | caught by (quick) | first counterexample |",
       "|---|---|---|---|---|---|---|"]
for r in rows:
    out.append("| " + " | ".join(str(x).replace("|", "\\|").replace("\n", " ") for x in r) + " |")
open(os.path.join(V, "seeded", "README.md"), "w").write("\n".join(out) + "\n")
print(len(rows), "rows;", sum(1 for r in rows if r[5] != "NOT DETECTED"), "detected")
