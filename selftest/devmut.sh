#!/bin/bash
# devmut.sh <seed> <module> <cond> <shard-json> [budget] [P|C]: one shard against a scratch build of /repo HEAD + seeded change
set -e
S=$1; shift
W=/tmp/devbuild/src2
git -C $W checkout -q --detach $(git -C /repo rev-parse HEAD); git -C $W checkout -q -- .
git -C $W apply /verif/seeded/$S/patch.diff
mkdir -p /tmp/devbuild/mt
OUT=$(cd /verif && TMPDIR=/tmp/devbuild/mt VERIF_REPO=$W /verif/.venv/bin/python -m vlib.build | tail -1)
git -C $W checkout -q -- .
B=${5:-C}
D=$(ls -td /tmp/devbuild/mt/asynq-verif-cache/*/ | head -1)
if [ "$B" = "C" ]; then BD=$D/C-O0; else BD=$D/P; fi
cd /tmp && VERIF_BUILD_DIR=$BD /verif/.venv/bin/python /verif/selftest/prof2.py "$1" "$2" "$3" "${4:-60}" 2>&1 | grep -v "^WARN" | tail -${TAILN:-1} | cut -c1-${CUT:-700}
