#!/usr/bin/env python3
"""Mutation self-test (DESIGN.md section 7, appendix A): hand-written source mutants of the anchored mechanisms.
Each is applied to a scratch copy of /repo (never to /repo), must still pass the baseline suite when the
catalogue says so, and must be refuted (or, for the two 'harmless' entries, NOT flagged) by the named check.
Usage: selftest/catalogue.py [name ...]"""
import json
import os
import shutil
import subprocess
import sys
import tempfile

VERIF = os.path.dirname(os.path.dirname(os.path.abspath(__file__)))

CAT = [
    # name, file, old, new, property, expect violation?
    ("prio-reversed", "asynq/scheduler.py", "best_priority < priority", "best_priority > priority", "C05", True),
    ("prio-le-ties-free", "asynq/scheduler.py", "best_priority < priority", "best_priority <= priority", "C05", False),
    ("flush-all-pending", "asynq/scheduler.py",
     "        self._batches.remove(batch)\n        self._flush_batch(batch)\n        return batch",
     "        for b in list(self._batches):\n            if b.items and not b.is_flushed():\n                self._batches.remove(b)\n                self._flush_batch(b)\n        return batch",
     "C04", True),
    ("waitfor-no-break", "asynq/scheduler.py",
     "            self._execute(task)\n            if task.is_computed():\n                break\n            self._continue_with_batch()",
     "            self._execute(task)\n            self._continue_with_batch()", "C05", True),
    ("flushbatch-no-finally", "asynq/scheduler.py",
     "        try:\n            if _debug_options.COLLECT_PERF_STATS:\n                start = utime()\n                batch.flush()\n                batch.dump_perf_stats(utime() - start)\n            else:\n                batch.flush()\n        finally:\n            self.on_after_batch_flush(batch)",
     "        if _debug_options.COLLECT_PERF_STATS:\n            start = utime()\n            batch.flush()\n            batch.dump_perf_stats(utime() - start)\n        else:\n            batch.flush()\n        self.on_after_batch_flush(batch)",
     "C05", True),
    ("extract-forward-order", "asynq/async_task.py",
     "        i = len(value) - 1\n        while i >= 0:\n            extract_futures(value[i], result)\n            i -= 1",
     "        i = 0\n        while i < len(value):\n            extract_futures(value[i], result)\n            i += 1", "C03", True),
    ("push-computed-deps-harmless", "asynq/scheduler.py",
     "                    if not dependency.is_computed():\n                        if _debug_options.DUMP_SCHEDULE_TASK:",
     "                    if True:\n                        if _debug_options.DUMP_SCHEDULE_TASK:", "C03", False),
    ("no-pause-when-blocked", "asynq/scheduler.py",
     "                task._dependencies_scheduled = False\n                task._pause_contexts()\n                self._tasks.pop()",
     "                task._dependencies_scheduled = False\n                self._tasks.pop()", "C06", True),
    ("no-resume-before-deps", "asynq/scheduler.py",
     "                task._dependencies_scheduled = True\n                task._resume_contexts()",
     "                task._dependencies_scheduled = True", "C07", True),
    ("scoped-pause-restores-own-value", "asynq/scoped_value.py",
     "    def pause(self):\n        self._target._value = self._old_value\n\n    def __repr__(self):\n        return \"_AsyncScopedValueOverrideContext",
     "    def pause(self):\n        self._target._value = self._value\n\n    def __repr__(self):\n        return \"_AsyncScopedValueOverrideContext",
     "C07", True),
    # (removing only the assert in pause() is equivalent for the property: the task then fails with the same
    #  AssertionError from resume(); both are removed here)
    ("nonasync-no-assert", "asynq/contexts.py",
     "    def pause(self):\n        assert False, \"Task %s cannot yield while %s is active\" % (\n            self._active_task,\n            self,\n        )\n\n    def resume(self):\n        assert False, \"Task %s cannot yield while %s is active\" % (\n            self._active_task,\n            self,\n        )",
     "    def pause(self):\n        pass\n\n    def resume(self):\n        pass", "C06", True),
    ("set-value-no-guard", "asynq/futures.py",
     "        if self.is_computed():\n            raise FutureIsAlreadyComputed(self)\n        self._error = None\n        self._value = value",
     "        self._error = None\n        self._value = value", "C10", True),
    ("throw-new-instance", "asynq/async_task.py",
     "                    return self._generator.throw(type(error), error)",
     "                    return self._generator.throw(type(error)(*error.args))", "C02", True),
    ("active-task-not-restored", "asynq/scheduler.py",
     "        self.active_task = old_task\n", "        pass\n", "C08", True),
    ("batch-flush-no-double-guard", "asynq/batching.py",
     "        if self.is_computed():\n            raise BatchingError(\"Batch is already flushed or cancelled.\")\n",
     "", "C11", True),
    ("batch-compute-catches-exception-only", "asynq/batching.py",
     "        except BaseException as error:\n            if not self.is_computed():\n                self.set_error(error)",
     "        except Exception as error:\n            if not self.is_computed():\n                self.set_error(error)", "C11", True),
    ("gather-first-exception", "asynq/asynq_to_async.py",
     "return_when=asyncio.ALL_COMPLETED", "return_when=asyncio.FIRST_EXCEPTION", "C15", True),
    ("asynciomode-no-reset", "asynq/asynq_to_async.py",
     "        if self._token:\n            _asyncio_mode.reset(self._token)", "        pass", "C15", True),
    ("alazy-le", "asynq/tools.py", "wrapper.alazy_constant_refresh_time < utime() - ttl",
     "wrapper.alazy_constant_refresh_time <= utime() - ttl", "C13", False),
    ("amax-zip", "asynq/tools.py",
     "    max_pair = max(enumerate(iterable), key=lambda pair: keys[pair[0]])\n    return max_pair[1]",
     "    max_pair = max(zip(keys, range(len(keys)), iterable))\n    return max_pair[2]", "C14", True),
    # (range(max_tries + 1) alone is an equivalent mutant: the re-raise test fires first)
    ("aretry-swallows-last", "asynq/tools.py", "                    if i + 1 == max_tries:",
     "                    if i == max_tries:", "C14", True),
    ("take-first-off-by-one", "asynq/generator.py", "        if i == n - 1:", "        if i == n:", "C17", True),
    ("filter-partial-run-collapses", "asynq/debug.py", "            if matches and j == len(text_to_match):",
     "            if matches:", "C18", True),
    ("mock-no-asynq-attr", "asynq/mock_.py", "            mock_fn.asynq = async_fn\n", "", "C19", True),
    ("pxd-narrow-total-time", "asynq/batching.pxd", "cdef dump_perf_stats(self, long long time_taken)",
     "cdef dump_perf_stats(self, int time_taken)", "C20", True),
    ("debug-option-side-effect", "asynq/scheduler.py",
     "        if _debug_options.DUMP_SCHEDULE_BATCH and batch not in self._batches:\n            debug.write(\"@async: scheduling batch %s\" % debug.str(batch))",
     "        if _debug_options.DUMP_SCHEDULE_BATCH and batch not in self._batches:\n            debug.write(\"@async: scheduling batch %s\" % debug.str(batch))\n            return True",
     "C20", True),
    ("dedup-no-removal-callback", "asynq/tools.py", "            task.on_computed.subscribe(callback)\n", "", "C12", True),
    ("local-state-module-global", "asynq/profiler.py", "class LocalProfileState(threading.local):",
     "class LocalProfileState(object):", "C16", True),
]


def sh(cmd, cwd=None, env=None, timeout=3600):
    p = subprocess.run(cmd, shell=True, cwd=cwd, env=env, stdout=subprocess.PIPE, stderr=subprocess.STDOUT, text=True,
                       timeout=timeout)
    return p.returncode, p.stdout


def main():
    names = sys.argv[1:]
    results = {}
    out_path = os.path.join(VERIF, "selftest", "catalogue_results.json")
    if os.path.exists(out_path):
        results = json.load(open(out_path))
    for (name, path, old, new, pid, expect) in CAT:
        if names and name not in names:
            continue
        scratch = tempfile.mkdtemp(prefix="asynq-catalogue.")
        try:
            repo = os.path.join(scratch, "repo")
            sh("git -C /repo worktree add -q --detach %s HEAD" % repo)
            src = open(os.path.join(repo, path)).read()
            if old not in src:
                results[name] = {"error": "pattern not found in %s" % path}
                print(name, "PATTERN NOT FOUND")
                continue
            open(os.path.join(repo, path), "w").write(src.replace(old, new, 1))
            env = dict(os.environ, VERIF_REPO=repo, VERIF_EVIDENCE_DIR=os.path.join(scratch, "ev"))
            rc, out = sh("./run check %s --tier quick" % pid, cwd=VERIF, env=env)
            viol = [l for l in out.splitlines() if l.startswith("VIOLATION")]
            first = [l.strip() for l in out.splitlines() if l.startswith("  ")][:2]
            ok = (rc == 1 and viol) if expect else (rc == 0 and not viol)
            results[name] = {"file": path, "property": pid, "expected": "violation" if expect else "no alarm",
                             "exit": rc, "violations": len(viol), "first": first, "as_expected": bool(ok)}
            print(name, pid, "exit", rc, "violations", len(viol), "OK" if ok else "UNEXPECTED", first[:2], flush=True)
        finally:
            sh("git -C /repo worktree remove --force %s" % os.path.join(scratch, "repo"))
            shutil.rmtree(scratch, ignore_errors=True)
        json.dump(results, open(out_path, "w"), indent=1, sort_keys=True)


if __name__ == "__main__":
    main()
