#!/bin/bash
# dev.sh <module> <cond> <shard-json> [budget] [P|C] : run one shard against the private clean dev build
B=${5:-C}; D=/tmp/devbuild/cache/$(ls -t /tmp/devbuild/cache | grep -v lock | head -1)
if [ "$B" = "C" ]; then BD=$D/C-O0; else BD=$D/P; fi
cd /tmp && VERIF_BUILD_DIR=$BD /verif/.venv/bin/python /verif/selftest/prof2.py "$1" "$2" "$3" "${4:-60}" 2>&1 | grep -v "^WARN" | tail -${TAILN:-3} | cut -c1-${CUT:-1500}
