import sys, os, time, collections
sys.path.insert(0, os.environ['VERIF_BUILD_DIR']); sys.path.insert(1,'/verif')
from vlib import worker
worker.TIER[0]='quick'
conds,_ = worker.load_conds(sys.argv[1],'quick')
import crosshair.core_and_libs
res = worker.run_check(sys.argv[1], conds, {'cond':sys.argv[2],'shard':eval(sys.argv[3]),'budget':int(sys.argv[4]) if len(sys.argv)>4 else 60, 'twin': len(sys.argv)>5})
print({k:res.get(k) for k in ('verdict','paths','wall_s','z3_checks','z3_time','detail','messages','cex','wit')})
