"""Condition specifications: what one CrossHair obligation looks like.

A harness module exports ``conds(tier) -> [Cond, ...]``.  A Cond names a harness
function ``fn(*params) -> bool`` (True = the property held on this path), the stated
bound of every parameter, how many leading parameters are pinned per shard (shape
selectors), which build it runs on, and budgets.  The worker turns a Cond + shard into
a generated wrapper with a PEP-316 contract (``pre:`` = the bounds, ``post: _``) that
CrossHair analyses.
"""
import itertools


class Cond(object):
    def __init__(self, name, fn, params, pin=0, builds=("C",), budget=60, per_path=30,
                 extra_pre=(), family="", encodes=(), note="", known=None, twin=True,
                 shard_filter=None, concrete=False, trace=False):
        self.name = name
        self.fn = fn
        self.params = list(params)          # (name, 'int'|'bool', lo, hi)
        self.pin = pin
        self.builds = tuple(builds)
        self.budget = budget                # CPU seconds per shard (per_condition_timeout)
        self.per_path = per_path
        self.extra_pre = tuple(extra_pre)
        self.family = family or name
        self.encodes = tuple(encodes)
        self.note = note
        self.twin = twin
        self.shard_filter = shard_filter
        self.concrete = concrete
        self.trace = trace

    def shards(self):
        rngs = []
        for (n, t, lo, hi) in self.params[: self.pin]:
            if t == "bool":
                rngs.append([False, True])
            else:
                assert lo is not None and hi is not None, "pinned parameter needs a range"
                rngs.append(list(range(lo, hi + 1)))
        out = []
        for combo in itertools.product(*rngs):
            if self.shard_filter is None or self.shard_filter(*combo):
                out.append(list(combo))
        return out

    def free_params(self):
        return self.params[self.pin:]

    def to_json(self):
        return {
            "name": self.name, "family": self.family, "params": self.params,
            "pin": self.pin, "builds": list(self.builds), "budget": self.budget,
            "per_path": self.per_path, "extra_pre": list(self.extra_pre),
            "encodes": list(self.encodes), "note": self.note, "twin": self.twin,
            "shards": self.shards(), "concrete": self.concrete,
        }


def I(name, lo=None, hi=None):
    return (name, "int", lo, hi)


def B(name):
    return (name, "bool", None, None)
