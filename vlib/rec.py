"""Per-process recorder shared between harness code and the worker.

Everything stored here is concrete Python data (never symbolic): witness counters, the
shape-digest of each completed path, and a description of the last failed assertion.
"""
import collections
import hashlib

WIT = collections.Counter()      # witness counters (vacuity guard, see DESIGN.md section 7)
DIGESTS = set()                  # distinct non-trivial path shapes
PATHS_DONE = [0]
LAST_FAIL = [None]
SAMPLES = []


def reset():
    WIT.clear()
    DIGESTS.clear()
    PATHS_DONE[0] = 0
    LAST_FAIL[0] = None
    del SAMPLES[:]


def wit(name, n=1):
    WIT[name] += n


def fail(detail):
    """Record why the harness is about to return False (first failure wins)."""
    if LAST_FAIL[0] is None:
        LAST_FAIL[0] = detail
    return False


def clear_fail():
    LAST_FAIL[0] = None


def done(sig, nontrivial=True):
    """Called at the end of every completed path with a concrete, hashable shape."""
    PATHS_DONE[0] += 1
    if nontrivial:
        DIGESTS.add(hashlib.md5(repr(sig).encode()).hexdigest()[:12])
