"""Driver: builds scratch copies of /repo, fans CrossHair obligations out to workers,
replays counterexamples concretely, applies the known-findings file, writes evidence."""
import hashlib
import json
import os
import queue
import shutil
import subprocess
import sys
import tempfile
import threading
import time

HERE = os.path.dirname(os.path.abspath(__file__))
VERIF = os.path.dirname(HERE)
sys.path.insert(0, VERIF)
from vlib import build as vbuild  # noqa: E402

PY = os.path.join(VERIF, ".venv", "bin", "python")
WORKER = os.path.join(HERE, "worker.py")
NCPU = int(os.environ.get("VERIF_JOBS", "16"))
EXIT_OK, EXIT_VIOLATION, EXIT_HARNESS = 0, 1, 3
MAX_TRIAGE = 6


def ensure_venv():
    """Idempotent, offline bootstrap of the overlay venv (see DESIGN.md 3.4)."""
    marker = os.path.join(VERIF, ".venv", ".ok")
    if os.path.exists(marker):
        return
    lockp = os.path.join(tempfile.gettempdir(), "asynq-verif-venv.lock")
    import fcntl
    with open(lockp, "w") as lock:
        fcntl.flock(lock, fcntl.LOCK_EX)
        if os.path.exists(marker):
            return
        vdir = os.path.join(VERIF, ".venv")
        shutil.rmtree(vdir, ignore_errors=True)
        subprocess.check_call(["/venv/bin/python", "-m", "venv", vdir])
        sp = os.path.join(vdir, "lib", "python3.12", "site-packages")
        with open(os.path.join(sp, "zz_base.pth"), "w") as f:
            f.write("import site; site.addsitedir('/venv/lib/python3.12/site-packages')\n")
        subprocess.check_call(
            [os.path.join(vdir, "bin", "pip"), "install", "-q", "--no-index", "--find-links",
             "/opt/veriftools/wheels", "crosshair-tool"],
            env=dict(os.environ, PIP_NO_INDEX="1"))
        open(marker, "w").close()


def worker_env(build_dir, wrap_dir):
    env = dict(os.environ)
    env["VERIF_BUILD_DIR"] = build_dir
    env["VERIF_WRAP_DIR"] = wrap_dir
    env["PYTHONHASHSEED"] = "0"
    env["PYTHONDONTWRITEBYTECODE"] = "1"
    env["QUORA_ASYNQ_VERIF"] = "1"
    env.pop("PYTHONPATH", None)
    return env


def _die_with_parent():
    try:
        import ctypes
        import signal
        ctypes.CDLL("libc.so.6").prctl(1, signal.SIGKILL)     # PR_SET_PDEATHSIG
    except Exception:
        pass
    try:
        # a runaway program under a changed asynq must not take the machine down: 6 GB of address space per worker
        # (a worker normally needs < 1 GB); hitting the limit shows up as a MemoryError / dead worker = harness error
        import resource
        resource.setrlimit(resource.RLIMIT_AS, (6 << 30, 6 << 30))
    except Exception:
        pass


class Worker(object):
    def __init__(self, module, tier, build_dir, wrap_dir):
        self.args = [PY, "-u", WORKER, "serve", module, tier]
        self.env = worker_env(build_dir, wrap_dir)
        self.proc = None
        self.start()

    def start(self):
        self.log = tempfile.TemporaryFile(mode="w+")
        self.proc = subprocess.Popen(self.args, stdin=subprocess.PIPE, stdout=subprocess.PIPE,
                                     stderr=self.log, env=self.env, text=True, bufsize=1,
                                     preexec_fn=_die_with_parent)
        line = self.proc.stdout.readline()
        if not line:
            self.log.seek(0)
            raise RuntimeError("worker failed to start:\n" + self.log.read()[-3000:])

    def run(self, task, wall):
        """Returns the result dict, or a synthetic 'unknown' on wall timeout/crash."""
        self.proc.stdin.write(json.dumps(task) + "\n")
        self.proc.stdin.flush()
        res = [None]

        def rd():
            res[0] = self.proc.stdout.readline()

        t = threading.Thread(target=rd, daemon=True)
        t.start()
        t.join(wall)
        if t.is_alive() or not res[0]:
            crashed = not t.is_alive()
            self.kill()
            tail = ""
            try:
                self.log.seek(0)
                tail = self.log.read()[-1500:]
            except Exception:
                pass
            self.start()
            return {"cond": task.get("cond"), "shard": task.get("shard"), "id": task.get("id"),
                    "twin": task.get("twin", False), "build": task.get("build"),
                    "verdict": "error" if crashed else "unknown",
                    "detail": ("worker crashed: " + tail) if crashed else "wall-clock limit",
                    "paths": 0, "z3_checks": 0, "z3_time": 0.0, "wit": {}, "digests": [],
                    "wall_s": wall}
        return json.loads(res[0])

    def kill(self):
        try:
            self.proc.kill()
            self.proc.wait()
        except Exception:
            pass

    def close(self):
        try:
            self.proc.stdin.write(json.dumps({"op": "quit"}) + "\n")
            self.proc.stdin.flush()
            self.proc.wait(timeout=5)
        except Exception:
            self.kill()


def list_conds(module, tier, build_dir, wrap_dir):
    p = subprocess.run([PY, WORKER, "list", module, tier], env=worker_env(build_dir, wrap_dir),
                       stdout=subprocess.PIPE, stderr=subprocess.PIPE, text=True)
    if p.returncode != 0:
        raise RuntimeError("cannot list conditions of %s:\n%s" % (module, p.stderr[-4000:]))
    return json.loads(p.stdout.strip().splitlines()[-1])


def replay_once(module, tier, build_dir, wrap_dir, cond, args):
    p = subprocess.run([PY, WORKER, "replay", module, tier, cond, json.dumps(args)],
                       env=worker_env(build_dir, wrap_dir), stdout=subprocess.PIPE,
                       stderr=subprocess.PIPE, text=True, timeout=900)
    try:
        return json.loads(p.stdout.strip().splitlines()[-1])
    except Exception:
        return {"result": None, "detail": "replay crashed: " + p.stderr[-2000:]}


def load_known(pid):
    path = os.path.join(VERIF, "known_findings.json")
    if not os.path.exists(path):
        return []
    data = json.load(open(path))
    return [k for k in data.get("known", []) if k.get("property") == pid]


def match_known(known, cond, params, args):
    env = {p[0]: a for p, a in zip(params, args)}
    for k in known:
        if k.get("cond") not in (cond["name"], cond["family"]):
            continue
        try:
            if eval(k["when"], {}, dict(env)):
                return k
        except Exception:
            continue
    return None


def wall_cap(tier):
    """Wall-clock limit of one check (seconds): shards not started before it are reported as inconclusive
    ('not started'), shards started near it get the remaining time as their budget.  Quick conditions are
    sized to finish far below it; it bounds the thorough tier, whose shard budgets are caps."""
    v = os.environ.get("VERIF_WALL_CAP_S")
    if v:
        return float(v)
    return 1800.0 if tier == "quick" else 1500.0


def run_pool(module, tier, builds, wrap_dir, tasks, on_result, deadline=None):
    """tasks: list of dicts with 'build' in {'P','C'}; runs them on NCPU workers."""
    qs = {}
    for t in tasks:
        qs.setdefault(t["build"], queue.Queue()).put(t)
    counts = {b: q.qsize() for b, q in qs.items()}
    total = sum(counts.values())
    if total == 0:
        return
    alloc = {}
    for b in counts:
        alloc[b] = max(1, min(counts[b], int(round(NCPU * counts[b] / float(total)))))
    lock = threading.Lock()

    def loop(b):
        try:
            w = Worker(module, tier, builds[b], wrap_dir)
        except Exception as e:
            with lock:
                on_result({"verdict": "error", "detail": str(e), "cond": "?", "shard": [],
                           "build": b, "paths": 0, "z3_checks": 0, "z3_time": 0, "wit": {},
                           "digests": []})
            return
        try:
            while True:
                try:
                    t = qs[b].get_nowait()
                except queue.Empty:
                    break
                if deadline is not None:
                    left = deadline - time.time()
                    if left < 20 and not t.get("twin"):
                        with lock:
                            on_result({"id": t["id"], "verdict": "unknown", "cond": t["cond"], "shard": t["shard"],
                                       "build": b, "paths": 0, "z3_checks": 0, "z3_time": 0, "wit": {},
                                       "digests": [], "wall_s": 0,
                                       "detail": "not started: the wall-clock limit of this tier was reached"})
                        continue
                    if float(t.get("budget", 60)) > left:
                        t = dict(t, budget=max(20, int(left)))
                wall = float(t.get("budget", 60)) * 1.5 + 90
                r = w.run(t, wall)
                r["build"] = b
                with lock:
                    on_result(r)
        finally:
            w.close()

    threads = []
    for b, n in alloc.items():
        for _ in range(n):
            th = threading.Thread(target=loop, args=(b,), daemon=True)
            th.start()
            threads.append(th)
    for th in threads:
        th.join()


def check_property(pid, tier, module=None, level="other", assumptions=(), explanation="",
                   extra_evidence=None, pre_hook=None):
    """Runs every condition of harness module for `pid`; returns exit code."""
    t_start = time.time()
    seed = int(os.environ.get("VERIF_SEED", "0") or 0)
    ensure_venv()
    module = module or ("harness." + pid.lower())
    opt = "O0" if tier == "quick" else "O2"
    builds = vbuild.get_builds(("P", "C"), opt=opt)
    wrap_dir = tempfile.mkdtemp(prefix="asynq-verif-wrap.")
    violations = []
    known_hits = []
    harness_errors = []
    try:
        if pre_hook is not None:
            extra_evidence, extra_viol = pre_hook(builds, pid, tier)
            violations.extend(extra_viol)
        conds = list_conds(module, tier, builds["C"], wrap_dir)
        cmap = {c["name"]: c for c in conds}
        tasks = []
        tid = 0
        for c in conds:
            for b in c["builds"]:
                shards = c["shards"]
                for si, sh in enumerate(shards):
                    tid += 1
                    tasks.append({"id": tid, "cond": c["name"], "shard": sh, "build": b,
                                  "budget": c["budget"]})
                if c["twin"]:
                    twin_shards = [shards[0]] if len(shards) == 1 else [shards[0], shards[-1]]
                    for sh in twin_shards:
                        tid += 1
                        tasks.append({"id": tid, "cond": c["name"], "shard": sh, "build": b,
                                      "budget": min(c["budget"], 60), "twin": True})
        # seed only permutes launch order (verdicts on exhausted trees do not depend on it)
        if seed:
            import random
            random.Random(seed).shuffle(tasks)
            tasks.sort(key=lambda t: not t.get("twin"))       # (stable) vacuity twins still run first
        else:
            # vacuity twins first, then round-robin over the conditions (shard k of every condition before shard
            # k+1 of any), so that a wall-clock limit cuts every condition evenly
            rank = {}
            for t in tasks:
                key = (t["cond"], t["build"], bool(t.get("twin")))
                rank[t["id"]] = (key, sum(1 for k in rank.values() if k[0] == key))
            tasks.sort(key=lambda t: (not t.get("twin"), rank[t["id"]][1], t["id"]))
        results = []
        deadline = t_start + wall_cap(tier)
        run_pool(module, tier, builds, wrap_dir, tasks, results.append, deadline)

        known = load_known(pid)
        # --- triage counterexamples -------------------------------------------------
        rerun = []
        triaged = {}
        for r in list(results):
            if r.get("twin"):
                continue
            if r["verdict"] == "refuted":
                c = cmap[r["cond"]]
                triaged[c["name"]] = triaged.get(c["name"], 0) + 1
                if triaged[c["name"]] > MAX_TRIAGE and any(v["cond"] == c["name"] for v in violations):
                    r["triage"] = "not-replayed (cap; condition already has replayed violations)"
                    continue
                outcome = triage(module, tier, builds, wrap_dir, c, r, known, pid)
                r["triage"] = outcome["kind"]
                r["replay_detail"] = outcome.get("detail")
                if outcome["kind"] == "violation":
                    violations.append(outcome)
                elif outcome["kind"] == "known":
                    known_hits.append(outcome)
                    rerun.append((r, outcome["entry"]))
                else:
                    harness_errors.append(outcome)
            elif r["verdict"] in ("error", "nondeterministic"):
                harness_errors.append({"kind": "harness", "cond": r["cond"], "shard": r["shard"],
                                       "detail": r.get("detail")})
        # --- re-run shards whose counterexample was a known finding, with it excluded
        rounds = 0
        while rerun and rounds < 4:
            rounds += 1
            tasks2 = []
            for r, entry in rerun:
                ex = list(r.get("exclude", [])) + [entry["when"]]
                tid += 1
                tasks2.append({"id": tid, "cond": r["cond"], "shard": r["shard"],
                               "build": r["build"], "budget": cmap[r["cond"]]["budget"],
                               "exclude": ex})
            res2 = []
            run_pool(module, tier, builds, wrap_dir, tasks2, res2.append)
            rerun = []
            for t2 in tasks2:
                for r2 in res2:
                    if r2.get("id") == t2["id"]:
                        r2["exclude"] = t2["exclude"]
            for r2 in res2:
                results.append(r2)
                if r2["verdict"] == "refuted":
                    c = cmap[r2["cond"]]
                    outcome = triage(module, tier, builds, wrap_dir, c, r2, known, pid)
                    r2["triage"] = outcome["kind"]
                    if outcome["kind"] == "violation":
                        violations.append(outcome)
                    elif outcome["kind"] == "known":
                        if not any(k["entry"] is outcome["entry"] for k in known_hits):
                            known_hits.append(outcome)
                        rerun.append((r2, outcome["entry"]))
                    else:
                        harness_errors.append(outcome)
                elif r2["verdict"] in ("error", "nondeterministic"):
                    harness_errors.append({"kind": "harness", "cond": r2["cond"],
                                           "shard": r2["shard"], "detail": r2.get("detail")})
        # --- twins must be refuted ---------------------------------------------------
        for r in results:
            if r.get("twin") and r["verdict"] != "refuted":
                harness_errors.append({"kind": "vacuous", "cond": r["cond"], "shard": r["shard"],
                                       "detail": "vacuity twin verdict: %s %s" % (
                                           r["verdict"], r.get("detail") or r.get("messages"))})
    finally:
        shutil.rmtree(wrap_dir, ignore_errors=True)

    wall = round(time.time() - t_start, 2)
    ev = make_evidence(pid, tier, seed, level, builds, conds, results, violations, known_hits,
                       harness_errors, wall, assumptions, explanation, extra_evidence)
    evdir = os.environ.get("VERIF_EVIDENCE_DIR") or os.path.join(VERIF, "evidence")
    os.makedirs(evdir, exist_ok=True)
    with open(os.path.join(evdir, pid + ".json"), "w") as f:
        json.dump(ev, f, indent=1, sort_keys=True)
    # --- report -------------------------------------------------------------------
    seen = set()
    for k in known_hits:
        key = k["entry"]["what"]
        if key in seen:
            continue
        seen.add(key)
        print("KNOWN-FINDING: property=%s %s" % (pid, k["entry"]["what"]))
    for v in violations:
        print("VIOLATION property=%s replay=%s" % (pid, v["replay"]))
        print("  cond=%s args=%s" % (v["cond"], v["args"]))
        print("  " + str(v.get("detail"))[:1500].replace("\n", "\n  "))
    cov = ev["coverage"]
    print("%s tier=%s: %d conditions, %d obligations: confirmed=%d refuted=%d inconclusive=%d; "
          "paths=%d z3_checks=%d solver_s=%.1f wall=%.0fs exhaustive=%s" % (
              pid, tier, len(conds), cov["obligations"], cov["confirmed"], cov["refuted"],
              cov["inconclusive"], cov["evaluations"], cov["z3_checks"], cov["solver_s"], wall,
              cov["exhaustive"]))
    if violations:
        return EXIT_VIOLATION
    if harness_errors:
        for h in harness_errors[:10]:
            print("HARNESS-ERROR %s cond=%s shard=%s: %s" % (
                h.get("kind"), h.get("cond"), h.get("shard"), str(h.get("detail"))[:1500]))
        return EXIT_HARNESS
    return EXIT_OK


def triage(module, tier, builds, wrap_dir, c, r, known, pid):
    """Replay a counterexample concretely on fresh processes; classify it."""
    args = r["cex"]
    reproduced = None
    for b in c["builds"]:
        rp = replay_once(module, tier, builds[b], wrap_dir, c["name"], args)
        if rp.get("result") is False:
            reproduced = (b, rp)
            break
    if reproduced is None:
        return {"kind": "harness", "cond": c["name"], "shard": r["shard"],
                "detail": "counterexample %s did not reproduce concretely (%s)" % (
                    args, r.get("cex_msg"))}
    entry = match_known(known, c, c["params"], args)
    if entry is not None:
        return {"kind": "known", "entry": entry, "cond": c["name"], "args": args}
    rdir = os.path.join(VERIF, "replays", pid)
    os.makedirs(rdir, exist_ok=True)
    dig = hashlib.md5(json.dumps([c["name"], args]).encode()).hexdigest()[:10]
    path = os.path.join(rdir, "%s-%s.json" % (c["name"], dig))
    with open(path, "w") as f:
        json.dump({"property": pid, "module": module, "tier": tier, "cond": c["name"],
                   "params": [p[0] for p in c["params"]], "args": args,
                   "build": reproduced[0], "detail": reproduced[1].get("detail"),
                   "source_digest": builds["digest"]}, f, indent=1)
    return {"kind": "violation", "cond": c["name"], "args": args, "replay": path,
            "detail": reproduced[1].get("detail"), "build": reproduced[0]}


def make_evidence(pid, tier, seed, level, builds, conds, results, violations, known_hits,
                  harness_errors, wall, assumptions, explanation, extra):
    per = {}
    digests = set()
    tot = {"paths": 0, "z3": 0, "zt": 0.0, "conf": 0, "ref": 0, "inc": 0, "obl": 0}
    samples = []
    for r in results:
        key = "%s@%s" % (r["cond"], r.get("build"))
        p = per.setdefault(key, {"shards": 0, "confirmed": 0, "refuted": 0, "inconclusive": 0,
                                 "paths": 0, "z3_checks": 0, "solver_s": 0.0, "twin": [],
                                 "witness": {}, "cpu_wall_s": 0.0})
        if r.get("twin"):
            p["twin"].append(r["verdict"])
            continue
        p["shards"] += 1
        tot["obl"] += 1
        v = r["verdict"]
        if v == "confirmed":
            p["confirmed"] += 1
            tot["conf"] += 1
        elif v == "refuted":
            p["refuted"] += 1
            tot["ref"] += 1
        else:
            p["inconclusive"] += 1
            tot["inc"] += 1
            p.setdefault("inconclusive_shards", []).append([r["shard"], v])
        p["paths"] += r.get("paths", 0)
        p["z3_checks"] += r.get("z3_checks", 0)
        p["solver_s"] = round(p["solver_s"] + r.get("z3_time", 0.0), 3)
        p["cpu_wall_s"] = round(p["cpu_wall_s"] + r.get("wall_s", 0.0), 2)
        for k, n in (r.get("wit") or {}).items():
            p["witness"][k] = p["witness"].get(k, 0) + n
        tot["paths"] += r.get("paths", 0)
        tot["z3"] += r.get("z3_checks", 0)
        tot["zt"] += r.get("z3_time", 0.0)
        digests.update("%s:%s" % (r["cond"], d) for d in (r.get("digests") or []))
        for s in (r.get("samples") or [])[:1]:
            if len(samples) < 12:
                samples.append({"cond": r["cond"], "shard": r["shard"], "path": s})
        if r.get("cex") and len(samples) < 20:
            samples.append({"cond": r["cond"], "counterexample": r["cex"],
                            "triage": r.get("triage")})
    if not samples:
        for r in results[:5]:
            samples.append({"cond": r["cond"], "shard": r["shard"], "verdict": r["verdict"]})
    cspec = {}
    for c in conds:
        cspec[c["name"]] = {"family": c["family"], "bounds": {p[0]: [p[2], p[3]] if p[1] == "int" else "bool"
                                                             for p in c["params"]},
                            "pinned_per_shard": c["pin"], "builds": c["builds"],
                            "encodes": c["encodes"], "note": c["note"],
                            "extra_pre": c["extra_pre"]}
    exhaustive = (tot["inc"] == 0 and tot["ref"] == 0 and not harness_errors and tot["obl"] > 0)
    cov = {
        "explanation": explanation or (
            "Bounded symbolic execution (CrossHair 0.0.110 + z3) of asynq's real code, regenerated "
            "from /repo's working tree; every obligation is one harness condition on one shard of "
            "its pinned shape selectors; 'confirmed' means CrossHair exhausted the path tree, i.e. "
            "the assertion holds for every value of the symbolic parameters inside the stated bounds."),
        "evaluations": max(tot["paths"], 1),
        "distinct_nontrivial": max(len(digests), 0),
        "rule": ("evaluations = symbolic paths explored (each path = one equivalence class of inputs "
                 "decided by z3); distinct_nontrivial = number of distinct event-shape digests among "
                 "completed paths that the harness marked non-trivial (>=1 flush / state change)"),
        "samples": samples,
        "obligations": tot["obl"],
        "discharged": tot["conf"],
        "confirmed": tot["conf"],
        "refuted": tot["ref"],
        "inconclusive": tot["inc"],
        "z3_checks": tot["z3"],
        "solver_s": round(tot["zt"], 2),
        "exhaustive": bool(exhaustive),
        "conditions": cspec,
        "per_condition": per,
        "builds": {"source_digest": builds["digest"], "build_s": builds.get("build_s"),
                   "P": "pure python copy of /repo/asynq/*.py (+traced qcore)",
                   "C": "Cython build of /repo/asynq/*.py+*.pxd"},
        "known_findings_hit": [k["entry"]["what"] for k in known_hits],
        "harness_errors": [str(h)[:500] for h in harness_errors],
    }
    if extra:
        cov.update(extra)
    return {
        "property_id": pid, "tier": tier, "seed": seed, "level": level, "coverage": cov,
        "assumptions": list(assumptions), "wall_s": wall, "violations": len(violations),
    }
