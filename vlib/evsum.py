import json, sys
for p in sys.argv[1:]:
    e = json.load(open("evidence/%s.json" % p))
    c = e["coverage"]
    print(p, e["tier"], "wall", e["wall_s"], "paths", c["evaluations"], "distinct", c["distinct_nontrivial"], "exh", c["exhaustive"])
    for k, v in sorted(c["per_condition"].items()):
        print("   %-22s shards=%-4d conf=%-4d ref=%-3d inc=%-3d paths=%-7d cpu=%-7.0f twin=%s wit=%s" % (
            k, v["shards"], v["confirmed"], v["refuted"], v["inconclusive"], v["paths"], v["cpu_wall_s"], v["twin"],
            {a: b for a, b in list(v["witness"].items())[:6]}))
