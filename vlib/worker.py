"""CrossHair worker: analyses harness conditions against one scratch build of asynq.

Modes (argv[1]):
  list   <module> <tier>                   -> JSON list of condition specs on stdout
  serve  <module> <tier>                   -> reads JSON tasks on stdin, one result line each
  replay <module> <tier> <cond> <json-args> [--twin]  -> concrete run, JSON result on stdout

The build under analysis is $VERIF_BUILD_DIR (first on sys.path); asynq must come from it.
"""
import ast
import collections
import importlib
import json
import os
import re
import sys
import time
import traceback

HERE = os.path.dirname(os.path.abspath(__file__))
VERIF = os.path.dirname(HERE)
BUILD = os.environ.get("VERIF_BUILD_DIR")
if BUILD:
    sys.path.insert(0, BUILD)
sys.path.insert(1, VERIF)
sys.setrecursionlimit(10000)


def _import_asynq():
    import asynq
    import asynq.scheduler
    if BUILD:
        assert os.path.realpath(asynq.__file__).startswith(os.path.realpath(BUILD)), (
            "asynq imported from %s, not from the scratch build %s" % (asynq.__file__, BUILD))
    return asynq


def load_conds(module, tier):
    _import_asynq()
    mod = importlib.import_module(module)
    return {c.name: c for c in mod.conds(tier)}, mod


# ---------------------------------------------------------------------------------------
# wrapper generation


def wrapper_source(module, cond, shard, twin=False, exclude=()):
    """Source of a module defining ``w(<free params>) -> bool`` with a PEP-316 contract."""
    free = cond.free_params()
    sig = ", ".join("%s: %s" % (n, t) for (n, t, lo, hi) in free)
    pres = []
    for (n, t, lo, hi) in free:
        if t == "int":
            if lo is not None and hi is not None:
                pres.append("%d <= %s <= %d" % (lo, n, hi))
            elif lo is not None:
                pres.append("%d <= %s" % (lo, n))
            elif hi is not None:
                pres.append("%s <= %d" % (n, hi))
    pinned = cond.params[: cond.pin]
    assign = ["    %s = %r" % (p[0], v) for p, v in zip(pinned, shard)]
    allargs = ", ".join(p[0] for p in cond.params)
    # extra preconditions and exclusions may mention pinned names: evaluate them in the body
    guards = list(cond.extra_pre) + ["not (%s)" % e for e in exclude]
    lines = [
        "import %s as _hm" % module,
        "from vlib import rec as _rec",
        "import sys as _sys",
        "from crosshair.tracers import SYS_MONITORING_TOOL_ID as _TOOL",
        "_cond = [c for c in _hm.conds(%r) if c.name == %r][0]" % (TIER[0], cond.name),
        "def w(%s) -> bool:" % sig,
        '    """',
    ]
    for p in pres:
        lines.append("    pre: " + p)
    if guards:
        lines.append("    pre: _guard(%s)" % ", ".join(p[0] for p in free))
    lines.append("    post: _")
    lines.append('    """')
    lines += assign
    if getattr(cond, "trace", False):
        lines.append("    _r = _cond.fn(%s)" % allargs)
    else:
        # harness + compiled asynq handle symbolic scalars through the object protocol only
        # (exactly how the Cython build sees them); no bytecode tracing needed
        lines.append("    _old = _sys.monitoring.get_events(_TOOL)")
        lines.append("    _sys.monitoring.set_events(_TOOL, 0)")
        lines.append("    try:")
        lines.append("        _r = _cond.fn(%s)" % allargs)
        lines.append("    finally:")
        lines.append("        _sys.monitoring.set_events(_TOOL, _old)")
    if twin:
        lines.append("    return False")
    else:
        lines.append("    return _r")
    lines.append("def _guard(%s) -> bool:" % ", ".join(p[0] for p in free))
    lines += assign
    for g in guards:
        lines.append("    if not (%s): return False" % g)
    lines.append("    return True")
    return "\n".join(lines) + "\n"


TIER = ["quick"]
_wcount = [0]


def make_wrapper(module, cond, shard, twin=False, exclude=()):
    import tempfile
    _wcount[0] += 1
    d = os.environ.get("VERIF_WRAP_DIR") or tempfile.gettempdir()
    name = "_vw_%d_%d" % (os.getpid(), _wcount[0])
    path = os.path.join(d, name + ".py")
    with open(path, "w") as f:
        f.write(wrapper_source(module, cond, shard, twin, exclude))
    if d not in sys.path:
        sys.path.append(d)
    importlib.invalidate_caches()
    m = importlib.import_module(name)
    return m, path


# ---------------------------------------------------------------------------------------
# z3 instrumentation

Z3STAT = {"checks": 0, "time": 0.0, "unknown": 0}


def instrument_z3():
    import z3
    if getattr(z3.Solver, "_verif_wrapped", False):
        return
    orig = z3.Solver.check

    def check(self, *a, **k):
        t = time.time()
        r = orig(self, *a, **k)
        Z3STAT["checks"] += 1
        Z3STAT["time"] += time.time() - t
        if str(r) == "unknown":
            Z3STAT["unknown"] += 1
        return r

    z3.Solver.check = check
    z3.Solver._verif_wrapped = True


# ---------------------------------------------------------------------------------------


def patch_symbolic_repr():
    """Untraced mode (no bytecode interception): C-level formatting needs a real `str` from
    repr()/str() of a symbolic int.  Realise the value instead of returning CrossHair's lazy symbolic
    string (which only works under tracing).  Realisation forks per concrete value, so every harness
    gives formatted values a small explicit range (DESIGN.md 3.2)."""
    from crosshair.libimpl import builtinslib as bl
    from crosshair.core import realize
    if getattr(bl.SymbolicInt, "_verif_repr", False):
        return

    def _repr(self):
        return int.__repr__(realize(self))

    bl.SymbolicInt.__repr__ = _repr
    bl.SymbolicInt.__str__ = _repr
    bl.SymbolicInt._verif_repr = True


def parse_call_args(message, nfree):
    """Extracts the argument tuple from 'false when calling w(1, 2, True) ...'."""
    m = re.search(r"calling w\((.*?)\)(?: \(which|$)", message, re.S)
    if not m:
        m = re.search(r"calling w\((.*)\)", message, re.S)
    if not m:
        return None
    try:
        call = ast.parse("w(%s)" % m.group(1), mode="eval").body
        vals = [ast.literal_eval(a) for a in call.args]
        kw = {k.arg: ast.literal_eval(k.value) for k in call.keywords}
        return vals, kw
    except Exception:
        return None


def run_check(module, conds, task):
    from crosshair.core_and_libs import analyze_function, run_checkables
    from crosshair.options import AnalysisOptionSet
    from crosshair.core import MessageType
    from vlib import rec
    instrument_z3()
    patch_symbolic_repr()
    cond = conds[task["cond"]]
    shard = task["shard"]
    twin = task.get("twin", False)
    exclude = task.get("exclude", ())
    rec.reset()
    Z3STAT.update(checks=0, time=0.0, unknown=0)
    mod, path = make_wrapper(module, cond, shard, twin, exclude)
    stats = collections.Counter()
    opts = AnalysisOptionSet(
        per_condition_timeout=float(task.get("budget", cond.budget)),
        per_path_timeout=float(cond.per_path),
        max_uninteresting_iterations=10 ** 9,
        max_iterations=10 ** 9,
        report_all=True,
        stats=stats,
    )
    t0 = time.time()
    res = {"cond": cond.name, "shard": shard, "twin": twin, "build": task.get("build")}
    try:
        checkables = analyze_function(mod.w, opts)
        msgs = run_checkables(checkables)
    except BaseException as e:  # crosshair internal failure: inconclusive, never a pass
        res.update(verdict="error", detail="".join(traceback.format_exception_only(type(e), e))[-800:])
        msgs = []
    finally:
        try:
            os.remove(path)
        except OSError:
            pass
    res["wall_s"] = round(time.time() - t0, 2)
    res["paths"] = int(stats.get("num_paths", 0))
    res["z3_checks"] = Z3STAT["checks"]
    res["z3_time"] = round(Z3STAT["time"], 3)
    res["z3_unknown"] = Z3STAT["unknown"]
    res["wit"] = dict(rec.WIT)
    res["digests"] = sorted(rec.DIGESTS)
    res["paths_done"] = rec.PATHS_DONE[0]
    res["samples"] = rec.SAMPLES[:3]
    if "verdict" in res:
        return res
    states = [m.state for m in msgs]
    res["messages"] = [(m.state.name, m.message[:600]) for m in msgs]
    free = cond.free_params()
    if any(s == MessageType.CONFIRMED for s in states) and len(msgs) == 1:
        res["verdict"] = "confirmed"
    elif any(s in (MessageType.POST_FAIL, MessageType.POST_ERR, MessageType.EXEC_ERR) for s in states):
        res["verdict"] = "refuted"
        for m in msgs:
            if m.state in (MessageType.POST_FAIL, MessageType.POST_ERR, MessageType.EXEC_ERR):
                if "NotDeterministic" in m.message:
                    res["verdict"] = "nondeterministic"
                    res["detail"] = (m.message + "\n" + (m.traceback or ""))[-1500:]
                    break
                pa = parse_call_args(m.message, len(free))
                if pa is not None:
                    vals, kw = pa
                    names = [p[0] for p in free]
                    d = dict(zip(names, vals))
                    d.update(kw)
                    full = list(shard) + [d.get(n) for n in names]
                    res["cex"] = full
                    res["cex_msg"] = m.message[:400]
                    break
        if res["verdict"] == "refuted" and "cex" not in res:
            res["verdict"] = "error"
            res["detail"] = "could not parse counterexample: %r" % res["messages"]
    elif any(s == MessageType.PRE_UNSAT for s in states):
        res["verdict"] = "pre_unsat"
    elif any(s in (MessageType.SYNTAX_ERR, MessageType.IMPORT_ERR) for s in states):
        res["verdict"] = "error"
        res["detail"] = repr(res["messages"])
    else:
        res["verdict"] = "unknown"   # CANNOT_CONFIRM: budget exhausted or solver unknown
    return res


def run_replay(conds, cond_name, args, twin=False):
    """Concrete execution (no CrossHair) of the harness on the given full argument list."""
    from vlib import rec
    cond = conds[cond_name]
    rec.reset()
    out = {"cond": cond_name, "args": args}
    try:
        r = cond.fn(*args)
        out["result"] = bool(r)
        out["detail"] = rec.LAST_FAIL[0]
    except BaseException as e:
        out["result"] = False
        out["detail"] = "harness raised: " + "".join(traceback.format_exception(type(e), e, e.__traceback__))[-3000:]
    out["wit"] = dict(rec.WIT)
    return out


def main():
    mode = sys.argv[1]
    module, tier = sys.argv[2], sys.argv[3]
    TIER[0] = tier
    if mode == "list":
        conds, _ = load_conds(module, tier)
        print(json.dumps([c.to_json() for c in conds.values()]))
    elif mode == "serve":
        conds, _ = load_conds(module, tier)
        import crosshair.core_and_libs  # noqa: F401  (load plugins once)
        out = os.fdopen(os.dup(1), "w")
        # harness/asynq code may print: keep the protocol channel clean
        os.dup2(2, 1)
        sys.stdout = sys.stderr
        out.write(json.dumps({"ready": True}) + "\n")
        out.flush()
        for line in sys.stdin:
            line = line.strip()
            if not line:
                continue
            task = json.loads(line)
            if task.get("op") == "quit":
                break
            if task.get("op") == "replay":
                res = run_replay(conds, task["cond"], task["args"])
            else:
                res = run_check(module, conds, task)
            res["id"] = task.get("id")
            out.write(json.dumps(res) + "\n")
            out.flush()
    elif mode == "replay":
        conds, _ = load_conds(module, tier)
        args = json.loads(sys.argv[5])
        res = run_replay(conds, sys.argv[4], args)
        print(json.dumps(res))
    else:
        raise SystemExit("unknown mode")


if __name__ == "__main__":
    main()
