import argparse
import importlib
import json
import os
import sys

from vlib import driver


def main():
    ap = argparse.ArgumentParser()
    sub = ap.add_subparsers(dest="cmd")
    c = sub.add_parser("check")
    c.add_argument("pid")
    c.add_argument("--tier", default=os.environ.get("VERIF_TIER") or "quick")
    r = sub.add_parser("replay")
    r.add_argument("path")
    sub.add_parser("setup")
    a = ap.parse_args()
    if a.cmd == "setup":
        driver.ensure_venv()
        from vlib import build
        print(build.get_builds())
        return 0
    if a.cmd == "check":
        meta = importlib.import_module("harness.meta")
        info = meta.PROPS[a.pid]
        if info.get("custom"):
            mod = importlib.import_module(info["custom"])
            return mod.main(a.pid, a.tier)
        return driver.check_property(
            a.pid, a.tier, module=info.get("module"), level=info.get("level", "other"),
            assumptions=info.get("assumptions", ()), explanation=info.get("explanation", ""))
    if a.cmd == "replay":
        d = json.load(open(a.path))
        from vlib import build
        builds = build.get_builds(("P", "C"))
        import tempfile
        wd = tempfile.mkdtemp(prefix="asynq-verif-wrap.")
        rp = driver.replay_once(d["module"], d["tier"], builds[d.get("build", "C")], wd,
                                d["cond"], d["args"])
        print(json.dumps(rp, indent=1))
        if rp.get("result") is False:
            print("VIOLATION property=%s replay=%s" % (d["property"], a.path))
            return 1
        return 0
    ap.print_help()
    return 2


if __name__ == "__main__":
    sys.exit(main())
