"""Scratch builds of /repo's *current working tree* (never /repo's own .so files).

P  = pure build: asynq/*.py only (+ a traced copy of qcore's .py files)
C  = compiled build: asynq/*.py + *.pxd + setup.py -> build_ext --inplace

Builds live under $TMPDIR/asynq-verif-cache/<digest>/{P,C}; the cache is keyed on a
digest of every source file that goes into a build, holds at most KEEP digests, and is
only a cache: anything missing is rebuilt from /repo.
"""
import fcntl
import glob
import hashlib
import os
import shutil
import subprocess
import sys
import tempfile
import time

REPO = os.environ.get("VERIF_REPO", "/repo")
BASE_PY = "/venv/bin/python"
QCORE = "/venv/lib/python3.12/site-packages/qcore"
KEEP = 2


def cache_root():
    return os.path.join(tempfile.gettempdir(), "asynq-verif-cache")


def source_files():
    files = sorted(glob.glob(os.path.join(REPO, "asynq", "*.py")))
    files += sorted(glob.glob(os.path.join(REPO, "asynq", "*.pxd")))
    files += [os.path.join(REPO, "setup.py")]
    return files


def source_digest():
    h = hashlib.sha256()
    for f in source_files():
        h.update(os.path.relpath(f, REPO).encode())
        with open(f, "rb") as fh:
            h.update(fh.read())
    return h.hexdigest()[:16]


def _copy_sources(dst, with_pxd):
    os.makedirs(os.path.join(dst, "asynq"), exist_ok=True)
    for f in glob.glob(os.path.join(REPO, "asynq", "*.py")):
        shutil.copy(f, os.path.join(dst, "asynq"))
    shutil.copy(os.path.join(REPO, "asynq", "py.typed"), os.path.join(dst, "asynq"))
    # the test-suite helpers are used by some harnesses (asynq.tests.helpers etc.)
    tdir = os.path.join(dst, "asynq", "tests")
    os.makedirs(tdir, exist_ok=True)
    for f in glob.glob(os.path.join(REPO, "asynq", "tests", "*.py")):
        shutil.copy(f, tdir)
    if with_pxd:
        for f in glob.glob(os.path.join(REPO, "asynq", "*.pxd")):
            shutil.copy(f, os.path.join(dst, "asynq"))
        shutil.copy(os.path.join(REPO, "setup.py"), dst)
        shutil.copy(os.path.join(REPO, "README.rst"), dst)


def _build_P(dst):
    _copy_sources(dst, with_pxd=False)
    # traced copy of qcore (its compiled modules would otherwise be opaque)
    q = os.path.join(dst, "qcore")
    os.makedirs(q, exist_ok=True)
    for f in glob.glob(os.path.join(QCORE, "*.py")):
        shutil.copy(f, q)


def _build_C(dst, opt):
    _copy_sources(dst, with_pxd=True)
    env = dict(os.environ)
    if opt == "O0":
        env["CFLAGS"] = "-O0 -g0"
    else:
        env["CFLAGS"] = "-g0"
    p = subprocess.run(
        [BASE_PY, "setup.py", "build_ext", "--inplace", "-j", "16"],
        cwd=dst, env=env, stdout=subprocess.PIPE, stderr=subprocess.STDOUT, text=True,
    )
    if p.returncode != 0:
        sys.stderr.write(p.stdout[-4000:])
        raise RuntimeError("compiled build of /repo's working tree failed")
    shutil.rmtree(os.path.join(dst, "build"), ignore_errors=True)
    for f in glob.glob(os.path.join(dst, "asynq", "*.c")):
        os.remove(f)
    n = len(glob.glob(os.path.join(dst, "asynq", "*.so")))
    if n != 11:
        raise RuntimeError("expected 11 extension modules, got %d" % n)


def get_builds(want=("P", "C"), opt="O0"):
    """Returns {'P': dir, 'C': dir, 'digest':..., 'build_s':...} (builds what is missing)."""
    root = cache_root()
    os.makedirs(root, exist_ok=True)
    digest = source_digest()
    t0 = time.time()
    out = {"digest": digest}
    with open(os.path.join(root, ".lock"), "w") as lock:
        fcntl.flock(lock, fcntl.LOCK_EX)
        ddir = os.path.join(root, digest)
        os.makedirs(ddir, exist_ok=True)
        for kind in want:
            name = kind if kind == "P" else "C-" + opt
            dst = os.path.join(ddir, name)
            ok = os.path.join(dst, ".ok")
            if not os.path.exists(ok):
                shutil.rmtree(dst, ignore_errors=True)
                if kind == "P":
                    _build_P(dst)
                else:
                    _build_C(dst, opt)
                open(ok, "w").close()
            out[kind] = dst
        os.utime(ddir)
        # bounded cache
        ds = [d for d in glob.glob(os.path.join(root, "*")) if os.path.isdir(d)]
        ds.sort(key=os.path.getmtime, reverse=True)
        for d in ds[KEEP:]:
            shutil.rmtree(d, ignore_errors=True)
    out["build_s"] = round(time.time() - t0, 2)
    return out


def clean():
    shutil.rmtree(cache_root(), ignore_errors=True)


if __name__ == "__main__":
    if len(sys.argv) > 1 and sys.argv[1] == "clean":
        clean()
    else:
        print(get_builds())
