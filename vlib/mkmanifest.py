"""Regenerates /verif/MANIFEST.json from harness/meta.py (run by hand after editing meta)."""
import json
import os
import sys

HERE = os.path.dirname(os.path.abspath(__file__))
VERIF = os.path.dirname(HERE)
sys.path.insert(0, VERIF)
from harness import meta  # noqa: E402

ALL = ["C%02d" % i for i in range(1, 21)]


def main():
    checks = []
    na = []
    for pid in ALL:
        info = meta.PROPS.get(pid)
        if info is None or info.get("not_applicable"):
            na.append({"property_id": pid, "reason": (info or {}).get(
                "not_applicable", "check not built yet (work in progress); nothing is claimed")})
            continue
        checks.append({
            "property_id": pid,
            "quick_cmd": "./run check %s --tier quick" % pid,
            "thorough_cmd": "./run check %s --tier thorough" % pid,
            "evidence_file": "evidence/%s.json" % pid,
            "replay_cmd_template": "./run replay {path}",
            "engine": "crosshair-z3",
            "level_claimed": {"category": info.get("level", "other"), "text": info["level_text"],
                              "design_ref": info.get("design_ref", "DESIGN.md section 5")},
            "level_note": info["level_note"],
            "technique": info.get("technique", "bounded symbolic execution of the real code (CrossHair + z3)"),
        })
    man = {
        "version": 1,
        "setup_cmd": "./run setup",
        "hooks": {
            "guard": "QUORA_ASYNQ_VERIF",
            "enable": "no source hooks: every observation point is public API (subclassing, event hooks); "
                      "checks copy /repo's working tree into scratch builds (pure + Cython) themselves",
            "baseline_off_cmd": "cd /repo && /venv/bin/python -m pytest -ra -q -p no:cacheprovider --timeout=900",
            "source_commits": [],
            "add_only": True,
        },
        "engines": [
            {"name": "crosshair-z3", "path": "vlib/worker.py", "serves_properties": [c["property_id"] for c in checks],
             "kind_free_text": "CrossHair 0.0.110 symbolic execution (z3 5.1.0) of harness conditions over the "
                               "real asynq modules, pure-Python and Cython-compiled builds regenerated from /repo"},
        ],
        "checks": checks,
        "notes": meta.NOTES,
        "not_applicable": na,
    }
    with open(os.path.join(VERIF, "MANIFEST.json"), "w") as f:
        json.dump(man, f, indent=1)
    print("wrote MANIFEST.json: %d checks, %d not_applicable" % (len(checks), len(na)))


if __name__ == "__main__":
    main()
